// C08, second part: exponents that are NOT dyadic (0.1, 0.7, 1.3 ...), where floating-point sums depend on the order.
// The same dimension is written several ways: children in different orders, through intermediate user units (nesting
// multiplies exponents), with a factor split over two children.  Ground truth in exact integer arithmetic (exponents are
// integers in units of 1/100): all writings of one dimension must be pairwise compatible and equivalent-as-the-algebra-
// says with scaling factor 1 (no prefixes / multipliers here), and a writing whose total differs by 0.1 in one base
// must be incompatible.  Connected variables with two writings of one dimension must validate; the analyser must not
// warn about them.
#include "vhc.h"
#include "vh.h"

#include <cmath>
#include <map>

using namespace vh;
using namespace libcellml;

int64_t vh_case_count(const std::string &tier, uint64_t)
{
    return tier == "thorough" ? 20000 : 2000;
}

static const std::vector<std::string> kBases = {"metre", "second", "kilogram", "ampere", "mole", "candela", "kelvin"};

static std::string decimal(int hundredths)
{
    char buf[32];
    snprintf(buf, sizeof buf, "%s%d.%02d", hundredths < 0 ? "-" : "", std::abs(hundredths) / 100, std::abs(hundredths) % 100);
    return buf;
}

using Dim = std::map<std::string, int>; // base -> exponent in hundredths

// one writing of `dim`: children of `u` (and helper units added to the model) whose exponents add up to dim exactly
static bool writeDim(const ModelPtr &model, const UnitsPtr &u, const Dim &dim, Rng &rng, int &helperCounter, std::string &how)
{
    bool cancelling = false; // some base gets terms of both signs: the floating-point sum loses relative precision
    struct Term
    {
        std::string ref;
        int e; // hundredths
    };
    std::vector<Term> terms;
    for (const auto &kv : dim) {
        if (kv.second == 0) {
            continue;
        }
        int style = rng.range(0, 3);
        int e = kv.second;
        if (style == 0) {
            terms.push_back({kv.first, e});
            how += "1";
        } else if (style == 1) {
            // split in two or three parts in tenths
            int a = rng.range(1, 9) * 10;
            int b = rng.range(1, 9) * 10;
            terms.push_back({kv.first, a});
            terms.push_back({kv.first, b});
            terms.push_back({kv.first, e - a - b});
            cancelling = cancelling || e - a - b < 0;
            how += e - a - b < 0 ? "3c" : "3";
        } else if (style == 2 && e % 30 == 0) {
            // through an intermediate units: (base^(e/3))^3
            auto h = Units::create("h" + std::to_string(helperCounter++));
            h->addUnit(kv.first, 0, strtod(decimal(e / 3).c_str(), nullptr), 1.0);
            model->addUnits(h);
            terms.push_back({h->name(), 300});
            how += "n";
        } else {
            // a part with its inverse and the rest
            int a = rng.range(1, 9) * 10 + 3;
            terms.push_back({kv.first, a});
            terms.push_back({kv.first, e});
            terms.push_back({kv.first, -a});
            cancelling = true;
            how += "c";
        }
    }
    rng.shuffle(terms);
    for (const auto &t : terms) {
        if (t.e != 0) {
            u->addUnit(t.ref, 0, strtod(decimal(t.e).c_str(), nullptr), 1.0);
        }
    }
    if (u->unitCount() == 0) {
        u->addUnit("dimensionless", 0, 1.0, 1.0);
    }
    return cancelling;
}

void vh_run_case(Ctx &ctx)
{
    Rng &rng = ctx.rng;
    auto model = Model::create("m");
    Dim dim;
    int nb = rng.range(1, 3);
    for (int i = 0; i < nb; ++i) {
        int e = rng.range(-12, 12) * 10 + (rng.chance(0.3) ? rng.range(-9, 9) : 0);
        if (rng.chance(0.3)) {
            e = rng.pick(std::vector<int>{30, 60, 90, -30, 120, 150});
        }
        dim[rng.pick(kBases)] += e;
    }
    int helperCounter = 0;
    std::string desc;
    std::vector<UnitsPtr> same;
    std::vector<bool> cancels;
    int nw = rng.range(2, 4);
    for (int w = 0; w < nw; ++w) {
        auto u = Units::create("w" + std::to_string(w));
        model->addUnits(u);
        std::string how;
        cancels.push_back(writeDim(model, u, dim, rng, helperCounter, how));
        desc += how + "|";
        same.push_back(u);
    }
    // a different dimension: one base off by 0.1
    Dim other = dim;
    other[rng.pick(kBases)] += rng.chance(0.5) ? 10 : -10;
    auto off = Units::create("off");
    model->addUnits(off);
    std::string how;
    (void)writeDim(model, off, other, rng, helperCounter, how);
    std::string text = Printer::create()->printModel(model);
    std::string dimText;
    for (const auto &kv : dim) {
        dimText += kv.first + "^" + decimal(kv.second) + " ";
    }
    bool dimensionless = true;
    for (const auto &kv : dim) {
        dimensionless = dimensionless && kv.second == 0;
    }
    stage("compatible/equivalent/scalingFactor");
    for (size_t i = 0; i < same.size(); ++i) {
        for (size_t j = 0; j < same.size(); ++j) {
            bool c = Units::compatible(same[i], same[j]);
            stat("same_dimension_pairs");
            if (!c) {
                // a sum with terms of both signs is only as exact as its largest term: judged apart
                viol("C08", std::string("decimal-exponents:compatible-false-for-equal-dimension:") + ((cancels[i] || cancels[j]) ? "sums-with-cancellation" : "sums-of-one-sign"), same[i]->name() + " vs " + same[j]->name() + " both " + dimText + "(" + desc + ")", text);
            }
            double f = Units::scalingFactor(same[i], same[j]);
            if (c && std::fabs(f - 1.0) > 1e-9) {
                viol("C08", "decimal-exponents:scaling-factor-not-one", same[i]->name() + " -> " + same[j]->name() + ": " + std::to_string(f), text);
            }
        }
        bool co = Units::compatible(same[i], off);
        bool oc = Units::compatible(off, same[i]);
        stat("different_dimension_pairs");
        if (co || oc) {
            viol("C08", "decimal-exponents:compatible-true-for-different-dimension", same[i]->name() + " (" + dimText + ") vs off by 0.1", text);
        }
    }
    // connected variables: same dimension -> valid; different -> MAP_VARIABLES error
    auto c1 = Component::create("c1");
    auto c2 = Component::create("c2");
    auto c3 = Component::create("c3");
    model->addComponent(c1);
    model->addComponent(c2);
    model->addComponent(c3);
    auto x = Variable::create("x");
    x->setUnits(same[0]);
    x->setInterfaceType("public");
    c1->addVariable(x);
    auto y = Variable::create("y");
    y->setUnits(same.back());
    y->setInterfaceType("public");
    c2->addVariable(y);
    Variable::addEquivalence(x, y);
    stage("validate same dimension");
    {
        auto v = Validator::create();
        v->validateModel(model);
        monitorLogger(*v, "Validator::validateModel", text);
        stat("validations");
        if (v->issueCount() != 0) {
            std::string shape = mismatchOfZero(v->issue(0)->description());
            viol("C04", shape.empty() ? "false-rejection:decimal-exponents:" + ruleName(v->issue(0)->referenceRule()) : "false-rejection:MAP_VARIABLES_ELEMENT" + shape, issueSummary(*v), Printer::create()->printModel(model));
        }
    }
    auto z = Variable::create("z");
    z->setUnits(off);
    z->setInterfaceType("public");
    c3->addVariable(z);
    Variable::addEquivalence(x, z);
    stage("validate different dimension");
    {
        auto v = Validator::create();
        v->validateModel(model);
        monitorLogger(*v, "Validator::validateModel", text);
        bool mapError = false;
        for (size_t i = 0; i < v->errorCount(); ++i) {
            mapError = mapError || v->error(i)->referenceRule() == Issue::ReferenceRule::MAP_VARIABLES_ELEMENT;
        }
        if (!mapError) {
            viol("C04", "missed-violation:decimal-exponents:connected-units-differ-by-0.1", issueSummary(*v), Printer::create()->printModel(model));
        }
    }
    seen("writings", desc.substr(0, 10));
    caseInfo(hex64(fnv1a(dimText + desc)), !dimensionless, dimText + " written " + desc);
}
