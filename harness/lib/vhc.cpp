#include "vhc.h"
#include "vh.h"

#include <algorithm>
#include <cstring>
#include <cmath>
#include <libxml/parser.h>
#include <libxml/parserInternals.h>
#include <libxml/tree.h>
#include <libxml/xmlerror.h>
#include <libxml/globals.h>

namespace vh {

std::string trim(const std::string &s)
{
    size_t a = 0;
    size_t b = s.size();
    while (a < b && (s[a] == ' ' || s[a] == '\t' || s[a] == '\n' || s[a] == '\r')) {
        ++a;
    }
    while (b > a && (s[b - 1] == ' ' || s[b - 1] == '\t' || s[b - 1] == '\n' || s[b - 1] == '\r')) {
        --b;
    }
    return s.substr(a, b - a);
}

std::string xmlEscape(const std::string &s)
{
    std::string o;
    for (char c : s) {
        switch (c) {
        case '&': o += "&amp;"; break;
        case '<': o += "&lt;"; break;
        case '>': o += "&gt;"; break;
        case '"': o += "&quot;"; break;
        case '\'': o += "&apos;"; break;
        default: o += c;
        }
    }
    return o;
}

std::string fmtDouble(double d, int digits)
{
    char buf[64];
    snprintf(buf, sizeof buf, "%.*g", digits, d);
    return buf;
}

static void silentErr(void *, const char *, ...) {}

namespace {
struct XmlQuiet
{
    // Parse with a private context so that no global default is read or written by the harness itself.
    static xmlDocPtr parse(const std::string &s)
    {
        // A private context whose blank handling is set explicitly: libxml2's process-wide defaults (which libCellML is
        // known to leave modified, see C12) must not influence what the harness itself reads.
        xmlParserCtxtPtr ctxt = xmlCreateMemoryParserCtxt(s.data(), static_cast<int>(s.size()));
        if (ctxt == nullptr) {
            return nullptr;
        }
        ctxt->keepBlanks = 1;
        if (ctxt->sax != nullptr) {
            ctxt->sax->error = nullptr;
            ctxt->sax->warning = nullptr;
            ctxt->sax->serror = nullptr;
            ctxt->sax->ignorableWhitespace = ctxt->sax->characters;
        }
        ctxt->vctxt.error = nullptr;
        ctxt->vctxt.warning = nullptr;
        xmlCtxtUseOptions(ctxt, XML_PARSE_NOERROR | XML_PARSE_NOWARNING | XML_PARSE_NONET);
        xmlParseDocument(ctxt);
        xmlDocPtr doc = ctxt->myDoc;
        bool ok = ctxt->wellFormed != 0;
        xmlFreeParserCtxt(ctxt);
        if (doc != nullptr && !ok) {
            xmlFreeDoc(doc);
            doc = nullptr;
        }
        return doc;
    }
};

void canonNode(xmlNodePtr n, std::string &out)
{
    if (n->type == XML_TEXT_NODE || n->type == XML_CDATA_SECTION_NODE) {
        std::string t = n->content != nullptr ? trim(reinterpret_cast<const char *>(n->content)) : "";
        if (!t.empty()) {
            out += "T(" + t + ")";
        }
        return;
    }
    if (n->type != XML_ELEMENT_NODE) {
        return;
    }
    out += "<";
    if (n->ns != nullptr && n->ns->href != nullptr) {
        out += "{";
        out += reinterpret_cast<const char *>(n->ns->href);
        out += "}";
    }
    out += reinterpret_cast<const char *>(n->name);
    std::vector<std::string> attrs;
    for (xmlAttrPtr a = n->properties; a != nullptr; a = a->next) {
        std::string k;
        if (a->ns != nullptr && a->ns->href != nullptr) {
            k += "{";
            k += reinterpret_cast<const char *>(a->ns->href);
            k += "}";
        }
        k += reinterpret_cast<const char *>(a->name);
        xmlChar *v = xmlNodeGetContent(reinterpret_cast<xmlNodePtr>(a));
        k += "=";
        if (v != nullptr) {
            k += reinterpret_cast<const char *>(v);
            xmlFree(v);
        }
        attrs.push_back(k);
    }
    std::sort(attrs.begin(), attrs.end());
    for (const auto &a : attrs) {
        out += " " + a;
    }
    out += ">";
    for (xmlNodePtr c = n->children; c != nullptr; c = c->next) {
        canonNode(c, out);
    }
    out += "</>";
}
} // namespace

bool wellFormed(const std::string &xml)
{
    xmlDocPtr d = XmlQuiet::parse(xml);
    if (d == nullptr) {
        return false;
    }
    xmlFreeDoc(d);
    return true;
}

std::string canonXml(const std::string &xml)
{
    std::string t = trim(xml);
    if (t.empty()) {
        return "";
    }
    std::string wrapped = "<vhroot>" + t + "</vhroot>";
    // strip an XML declaration if the fragment starts with one
    xmlDocPtr d = XmlQuiet::parse(wrapped);
    if (d == nullptr) {
        return "!raw:" + t;
    }
    std::string out;
    xmlNodePtr root = xmlDocGetRootElement(d);
    for (xmlNodePtr c = root->children; c != nullptr; c = c->next) {
        canonNode(c, out);
    }
    xmlFreeDoc(d);
    return out;
}

// ---------- canonical dump ----------
namespace {

std::string q(const std::string &s)
{
    return "\"" + s + "\"";
}

void sortIf(std::vector<std::string> &v, const DumpOptions &o)
{
    if (!o.orderSensitive) {
        std::sort(v.begin(), v.end());
    }
}

std::string join(const std::vector<std::string> &v, const std::string &sep)
{
    std::string o;
    for (size_t i = 0; i < v.size(); ++i) {
        if (i != 0U) {
            o += sep;
        }
        o += v[i];
    }
    return o;
}

std::string indent(const std::string &s)
{
    std::string o = "  ";
    for (char c : s) {
        o += c;
        if (c == '\n') {
            o += "  ";
        }
    }
    return o;
}

std::string normPrefix(const std::string &p)
{
    static const std::map<std::string, int> names = {
        {"yotta", 24}, {"zetta", 21}, {"exa", 18}, {"peta", 15}, {"tera", 12}, {"giga", 9}, {"mega", 6}, {"kilo", 3}, {"hecto", 2}, {"deca", 1}, {"deci", -1}, {"centi", -2}, {"milli", -3}, {"micro", -6}, {"nano", -9}, {"pico", -12}, {"femto", -15}, {"atto", -18}, {"zepto", -21}, {"yocto", -24}};
    if (p.empty()) {
        return "0";
    }
    auto it = names.find(p);
    if (it != names.end()) {
        return std::to_string(it->second);
    }
    // integer string?
    size_t i = 0;
    if (p[0] == '-' || p[0] == '+') {
        i = 1;
    }
    bool digits = i < p.size();
    for (size_t k = i; k < p.size(); ++k) {
        if (p[k] < '0' || p[k] > '9') {
            digits = false;
        }
    }
    if (digits && p.size() < 9) {
        return std::to_string(atoi(p.c_str()));
    }
    return "raw:" + p;
}

std::string importInfo(const ImportedEntityPtr &e, const DumpOptions &o)
{
    if (!o.imports) {
        return "";
    }
    std::string s;
    if (e->isImport()) {
        auto is = e->importSource();
        s += " import{url=" + q(is->url()) + " ref=" + q(e->importReference());
        if (o.ids) {
            s += " srcid=" + q(is->id());
        }
        if (o.importedModels && is->hasModel()) {
            s += " model=\n" + indent(dumpModel(is->model(), o));
        }
        s += "}";
    } else if (!e->importReference().empty()) {
        s += " importref-without-source=" + q(e->importReference());
    }
    return s;
}

} // namespace

std::string componentPath(const ComponentPtr &c)
{
    if (c == nullptr) {
        return "<null>";
    }
    std::vector<std::string> parts;
    ParentedEntityPtr p = c;
    int guard = 0;
    while (p != nullptr && guard++ < 200) {
        auto ne = std::dynamic_pointer_cast<NamedEntity>(p);
        if (std::dynamic_pointer_cast<Model>(p) != nullptr) {
            break;
        }
        parts.push_back(ne != nullptr ? ne->name() : "?");
        p = p->parent();
    }
    std::reverse(parts.begin(), parts.end());
    return join(parts, "/");
}

std::string variablePath(const VariablePtr &v)
{
    if (v == nullptr) {
        return "<null>";
    }
    auto c = std::dynamic_pointer_cast<Component>(v->parent());
    return (c != nullptr ? componentPath(c) : std::string("<orphan>")) + "." + v->name();
}

std::string dumpUnits(const UnitsPtr &u, const DumpOptions &o)
{
    std::string s = "units " + q(u->name());
    if (o.ids) {
        s += " id=" + q(u->id());
    }
    s += importInfo(u, o);
    std::vector<std::string> kids;
    for (size_t i = 0; i < u->unitCount(); ++i) {
        std::string ref;
        std::string pre;
        std::string id;
        double e = 1.0;
        double m = 1.0;
        ref = u->unitAttributeReference(i);
        pre = u->unitAttributePrefix(i);
        e = u->unitAttributeExponent(i);
        m = u->unitAttributeMultiplier(i);
        id = u->unitId(i);
        std::string k = "unit ref=" + q(ref) + " prefix=" + normPrefix(pre) + " exp=" + fmtDouble(e, o.digits) + " mult=" + fmtDouble(m, o.digits);
        if (o.ids) {
            k += " id=" + q(id);
        }
        kids.push_back(k);
    }
    sortIf(kids, o);
    for (const auto &k : kids) {
        s += "\n  " + k;
    }
    return s;
}

std::string dumpVariable(const VariablePtr &v, const DumpOptions &o)
{
    std::string s = "variable " + q(v->name());
    if (o.ids) {
        s += " id=" + q(v->id());
    }
    auto u = v->units();
    s += " units=" + (u != nullptr ? q(u->name()) : std::string("<none>"));
    s += " init=" + q(v->initialValue());
    s += " iface=" + q(v->interfaceType());
    return s;
}

std::string dumpReset(const ResetPtr &r, const DumpOptions &o)
{
    std::string s = "reset";
    if (o.ids) {
        s += " id=" + q(r->id());
    }
    s += std::string(" orderSet=") + (r->isOrderSet() ? "1" : "0");
    if (r->isOrderSet()) {
        s += " order=" + std::to_string(r->order());
    }
    s += " var=" + (r->variable() != nullptr ? q(variablePath(r->variable())) : std::string("<none>"));
    s += " testvar=" + (r->testVariable() != nullptr ? q(variablePath(r->testVariable())) : std::string("<none>"));
    if (o.ids) {
        s += " tvid=" + q(r->testValueId()) + " rvid=" + q(r->resetValueId());
    }
    if (o.math) {
        s += "\n  test=" + canonXml(r->testValue());
        s += "\n  value=" + canonXml(r->resetValue());
    }
    return s;
}

std::string dumpComponent(const ComponentPtr &c, const DumpOptions &o)
{
    std::string s = "component " + q(c->name());
    if (o.ids) {
        s += " id=" + q(c->id()) + " encid=" + q(c->encapsulationId());
    }
    s += importInfo(c, o);
    if (o.math) {
        s += "\n  math=" + canonXml(c->math());
    }
    std::vector<std::string> vars;
    for (size_t i = 0; i < c->variableCount(); ++i) {
        vars.push_back(dumpVariable(c->variable(i), o));
    }
    sortIf(vars, o);
    for (const auto &v : vars) {
        s += "\n  " + v;
    }
    std::vector<std::string> rs;
    for (size_t i = 0; i < c->resetCount(); ++i) {
        rs.push_back(dumpReset(c->reset(i), o));
    }
    sortIf(rs, o);
    for (const auto &r : rs) {
        s += "\n" + indent(r);
    }
    std::vector<std::string> kids;
    for (size_t i = 0; i < c->componentCount(); ++i) {
        kids.push_back(dumpComponent(c->component(i), o));
    }
    sortIf(kids, o);
    for (const auto &k : kids) {
        s += "\n" + indent(k);
    }
    return s;
}

static void collectComponents(const ComponentEntityPtr &e, std::vector<ComponentPtr> &out, int depth = 0)
{
    if (depth > 300) {
        return;
    }
    for (size_t i = 0; i < e->componentCount(); ++i) {
        auto c = e->component(i);
        out.push_back(c);
        collectComponents(c, out, depth + 1);
    }
}

std::vector<ComponentPtr> allComponents(const ModelPtr &m)
{
    std::vector<ComponentPtr> out;
    if (m != nullptr) {
        collectComponents(m, out);
    }
    return out;
}

std::vector<VariablePtr> allVariables(const ModelPtr &m)
{
    std::vector<VariablePtr> out;
    for (const auto &c : allComponents(m)) {
        for (size_t i = 0; i < c->variableCount(); ++i) {
            out.push_back(c->variable(i));
        }
    }
    return out;
}

std::string dumpModel(const ModelPtr &m, const DumpOptions &o)
{
    if (m == nullptr) {
        return "<null model>";
    }
    std::string s = "model " + q(m->name());
    if (o.ids) {
        s += " id=" + q(m->id()) + " encid=" + q(m->encapsulationId());
    }
    std::vector<std::string> us;
    for (size_t i = 0; i < m->unitsCount(); ++i) {
        us.push_back(dumpUnits(m->units(i), o));
    }
    sortIf(us, o);
    for (const auto &u : us) {
        s += "\n" + indent(u);
    }
    std::vector<std::string> cs;
    for (size_t i = 0; i < m->componentCount(); ++i) {
        cs.push_back(dumpComponent(m->component(i), o));
    }
    sortIf(cs, o);
    for (const auto &c : cs) {
        s += "\n" + indent(c);
    }
    if (o.equivalences) {
        std::set<std::string> eq;
        for (const auto &v : allVariables(m)) {
            for (size_t i = 0; i < v->equivalentVariableCount(); ++i) {
                auto e = v->equivalentVariable(i);
                std::string a = variablePath(v);
                std::string b = variablePath(e);
                std::string line = "equiv " + (a < b ? a + " ~ " + b : b + " ~ " + a);
                if (o.ids) {
                    line += " mapid=" + q(Variable::equivalenceMappingId(v, e)) + " connid=" + q(Variable::equivalenceConnectionId(v, e));
                }
                eq.insert(line);
            }
        }
        for (const auto &l : eq) {
            s += "\n  " + l;
        }
    }
    return s;
}

std::string firstDiff(const std::string &a, const std::string &b)
{
    std::vector<std::string> la;
    std::vector<std::string> lb;
    std::stringstream sa(a);
    std::stringstream sb(b);
    std::string l;
    while (std::getline(sa, l)) {
        la.push_back(l);
    }
    while (std::getline(sb, l)) {
        lb.push_back(l);
    }
    size_t n = std::min(la.size(), lb.size());
    for (size_t i = 0; i < n; ++i) {
        if (la[i] != lb[i]) {
            return "line " + std::to_string(i) + ": A[" + truncateForLog(la[i], 300) + "] B[" + truncateForLog(lb[i], 300) + "]";
        }
    }
    if (la.size() != lb.size()) {
        const auto &longer = la.size() > lb.size() ? la : lb;
        return std::string("extra line in ") + (la.size() > lb.size() ? "A" : "B") + ": [" + truncateForLog(longer[n], 300) + "]";
    }
    return "";
}

// ---------- issues ----------
std::string levelName(Issue::Level l)
{
    switch (l) {
    case Issue::Level::ERROR: return "ERROR";
    case Issue::Level::WARNING: return "WARNING";
    case Issue::Level::MESSAGE: return "MESSAGE";
    }
    return "LEVEL?" + std::to_string(static_cast<int>(l));
}

std::string ruleName(Issue::ReferenceRule r)
{
    return "R" + std::to_string(static_cast<int>(r));
}

std::string rejectionKey(const Logger &validator)
{
    if (validator.issueCount() == 0) {
        return "none";
    }
    auto is = validator.issue(0);
    std::string d = is->description();
    std::string key = ruleName(is->referenceRule());
    bool onlyImportSources = d.find("Duplicated identifier attribute") != std::string::npos && d.find("import source for") != std::string::npos;
    for (size_t pos = d.find("\n - "); pos != std::string::npos && onlyImportSources; pos = d.find("\n - ", pos + 1)) {
        onlyImportSources = d.compare(pos + 4, 17, "import source for") == 0;
    }
    if (onlyImportSources) {
        return key + ":ids-of-import-sources-only";
    }
    return key + mismatchOfZero(d);
}

std::string mismatchOfZero(const std::string &d)
{
    size_t mm = d.find("The mismatch is: ");
    if (mm == std::string::npos) {
        return "";
    }
    // "<base>^<n>, ... [multiplication factor of 10^<m>]." with every <n> equal to 0 (or -0)
    std::string rest = d.substr(mm + 17);
    rest = rest.substr(0, rest.find('\n'));
    rest = rest.substr(0, rest.find("multiplication factor")); // reported along with a base mismatch, never on its own
    bool allZero = true;
    bool any = false;
    for (size_t p = rest.find('^'); p != std::string::npos; p = rest.find('^', p + 1)) {
        size_t e = rest.find_first_of(",.", p);
        std::string n = rest.substr(p + 1, e == std::string::npos ? std::string::npos : e - p - 1);
        any = true;
        allZero = allZero && (n == "0" || n == "-0");
    }
    return any && allZero ? ":mismatch-of-zero" : "";
}


static std::string itemTypeName(const IssuePtr &is)
{
    auto it = is->item();
    if (it == nullptr) {
        return "<nullitem>";
    }
    return cellmlElementTypeAsString(it->type());
}

std::vector<std::string> issueList(const Logger &lg)
{
    std::vector<std::string> out;
    size_t n = lg.issueCount();
    for (size_t i = 0; i < n; ++i) {
        auto is = lg.issue(i);
        if (is == nullptr) {
            out.push_back("<null issue>");
            continue;
        }
        out.push_back(levelName(is->level()) + "|" + ruleName(is->referenceRule()) + "|" + itemTypeName(is) + "|" + is->description());
    }
    return out;
}

std::string issueSummary(const Logger &lg, size_t max)
{
    std::string s;
    auto l = issueList(lg);
    for (size_t i = 0; i < l.size() && i < max; ++i) {
        s += l[i] + "\n";
    }
    if (l.size() > max) {
        s += "... (" + std::to_string(l.size()) + " issues)\n";
    }
    return s;
}

static bool itemMatches(const AnyCellmlElementPtr &it, std::string &why)
{
    if (it == nullptr) {
        why = "null-item";
        return false;
    }
    switch (it->type()) {
    case CellmlElementType::COMPONENT:
    case CellmlElementType::COMPONENT_REF:
        if (it->component() == nullptr) {
            why = "component-null";
            return false;
        }
        break;
    case CellmlElementType::CONNECTION:
    case CellmlElementType::MAP_VARIABLES:
        if (it->variablePair() == nullptr) {
            why = "variablepair-null";
            return false;
        }
        break;
    case CellmlElementType::ENCAPSULATION:
    case CellmlElementType::MODEL:
        if (it->model() == nullptr) {
            why = "model-null";
            return false;
        }
        break;
    case CellmlElementType::IMPORT:
        if (it->importSource() == nullptr) {
            why = "importsource-null";
            return false;
        }
        break;
    case CellmlElementType::MATH:
        // The owning component of a MATH item is stored but no public accessor returns it
        // (AnyCellmlElement::component() is documented to return null unless the type is COMPONENT):
        // unobservable at the API boundary, so not judged.
        break;
    case CellmlElementType::RESET:
    case CellmlElementType::RESET_VALUE:
    case CellmlElementType::TEST_VALUE:
        if (it->reset() == nullptr) {
            why = "reset-null";
            return false;
        }
        break;
    case CellmlElementType::UNIT:
        if (it->unitsItem() == nullptr) {
            why = "unitsitem-null";
            return false;
        }
        break;
    case CellmlElementType::UNITS:
        if (it->units() == nullptr) {
            why = "units-null";
            return false;
        }
        break;
    case CellmlElementType::VARIABLE:
        if (it->variable() == nullptr) {
            why = "variable-null";
            return false;
        }
        break;
    case CellmlElementType::UNDEFINED:
        break;
    default:
        why = "unknown-type";
        return false;
    }
    return true;
}

std::vector<std::string> checkLogger(const Logger &lg, const std::string &service)
{
    std::vector<std::string> bad;
    size_t n = lg.issueCount();
    size_t ne = lg.errorCount();
    size_t nw = lg.warningCount();
    size_t nm = lg.messageCount();
    if (n != ne + nw + nm) {
        bad.push_back("count-mismatch:" + service);
    }
    std::vector<IssuePtr> byLevel[3];
    for (size_t i = 0; i < n; ++i) {
        IssuePtr is;
        try {
            is = lg.issue(i);
        } catch (const std::exception &e) {
            bad.push_back("issue(i)-throws:" + service);
            continue;
        }
        if (is == nullptr) {
            bad.push_back("issue(i)-null-in-range:" + service);
            continue;
        }
        int l = static_cast<int>(is->level());
        if (l < 0 || l > 2) {
            bad.push_back("level-out-of-enum:" + service);
            continue;
        }
        byLevel[l].push_back(is);
        if (is->description().empty()) {
            bad.push_back("empty-description:" + service + ":" + ruleName(is->referenceRule()));
        }
        try {
            (void)is->referenceHeading();
            std::string u = is->url();
            if (u.empty()) {
                bad.push_back("empty-url:" + service + ":" + ruleName(is->referenceRule()));
            }
        } catch (const std::exception &e) {
            bad.push_back("rule-lookup-throws:" + service + ":" + ruleName(is->referenceRule()));
        }
        std::string why;
        if (!itemMatches(is->item(), why)) {
            bad.push_back("item-mismatch:" + service + ":" + why + ":" + ruleName(is->referenceRule()));
        }
    }
    struct Acc
    {
        const char *name;
        size_t count;
        std::function<IssuePtr(size_t)> get;
    };
    Acc accs[3] = {{"error", ne, [&](size_t i) { return lg.error(i); }},
                   {"warning", nw, [&](size_t i) { return lg.warning(i); }},
                   {"message", nm, [&](size_t i) { return lg.message(i); }}};
    for (int l = 0; l < 3; ++l) {
        if (accs[l].count != byLevel[l].size()) {
            bad.push_back(std::string("level-count-mismatch:") + accs[l].name + ":" + service);
        }
        for (size_t i = 0; i < accs[l].count; ++i) {
            IssuePtr is;
            try {
                is = accs[l].get(i);
            } catch (const std::exception &e) {
                bad.push_back(std::string("level-accessor-throws:") + accs[l].name + ":" + service);
                break;
            }
            if (i >= byLevel[l].size() || is != byLevel[l][i]) {
                bad.push_back(std::string("level-accessor-wrong-issue:") + accs[l].name + ":" + service);
                break;
            }
        }
        try {
            if (accs[l].get(accs[l].count) != nullptr || accs[l].get(accs[l].count + 7) != nullptr || accs[l].get(static_cast<size_t>(-1)) != nullptr) {
                bad.push_back(std::string("out-of-range-not-null:") + accs[l].name + ":" + service);
            }
        } catch (const std::exception &e) {
            bad.push_back(std::string("out-of-range-throws:") + accs[l].name + ":" + service);
        }
    }
    try {
        if (lg.issue(n) != nullptr || lg.issue(static_cast<size_t>(-1)) != nullptr) {
            bad.push_back("out-of-range-not-null:issue:" + service);
        }
    } catch (const std::exception &e) {
        bad.push_back("out-of-range-throws:issue:" + service);
    }
    return bad;
}

void monitorLogger(const Logger &lg, const std::string &service, const std::string &replay)
{
    stat("logger_checks");
    stat("issues_seen", static_cast<int64_t>(lg.issueCount()));
    size_t n = lg.issueCount();
    for (size_t i = 0; i < n && i < 50; ++i) {
        auto is = lg.issue(i);
        if (is != nullptr) {
            seen("service_rule", service + ":" + std::to_string(static_cast<int>(is->referenceRule())));
        }
    }
    auto bad = checkLogger(lg, service);
    for (const auto &b : bad) {
        viol("C15", "logger:" + b, "incoherent issue list after " + service + "\n" + issueSummary(lg), replay);
    }
}

void monitorExplained(bool failed, const Logger &lg, const std::string &service, const std::string &replay)
{
    if (failed) {
        stat("failing_results");
        if (lg.issueCount() == 0) {
            viol("C15", "unexplained:" + service, service + " failed with an empty issue list", replay);
        }
    }
}

// ---------- libxml2 globals ----------
std::string XmlGlobals::str() const
{
    char buf[256];
    snprintf(buf, sizeof buf, "keepBlanks=%d substEnt=%d loadExtDtd=%d pedantic=%d lineNumbers=%d doValidity=%d serr=%p gerr=%p",
             keepBlanks, substituteEntities, loadExtDtd, pedantic, lineNumbers, doValidity, structuredErrorFunc, genericErrorFunc);
    return buf;
}

XmlGlobals readXmlGlobals()
{
    XmlGlobals g;
    g.keepBlanks = xmlKeepBlanksDefaultValue;
    g.substituteEntities = xmlSubstituteEntitiesDefaultValue;
    g.loadExtDtd = xmlLoadExtDtdDefaultValue;
    g.pedantic = xmlPedanticParserDefaultValue;
    g.lineNumbers = xmlLineNumbersDefaultValue;
    g.doValidity = xmlDoValidityCheckingDefaultValue;
    g.structuredErrorFunc = reinterpret_cast<void *>(xmlStructuredError);
    g.genericErrorFunc = reinterpret_cast<void *>(xmlGenericError);
    return g;
}

} // namespace vh
