// Second family of structure-aware mutations: constructs that are legal XML but that code written for "plain" CellML
// documents tends not to expect.  Kept apart from mutateStructured() so that the random streams of the existing
// workloads do not move.
//   comment / processing instruction / CDATA section next to (or in the middle of) the text of an element;
//   a twin of an attribute in another namespace (type= and cellml:type= on one element);
//   one text or attribute value blown up to tens of kilobytes of one character (total kept under 64 KiB);
//   names and texts taken from the string literals of the library's own sources (in-band markers, message fragments);
//   a DOCTYPE with an internal subset declaring entities, and references to them in content and attribute values;
//   a chain of units in which each is the product of two references to the previous one (a DAG, not a cycle).
#include "mutate.h"

#include <algorithm>
#include <cstring>
#include <libxml/parser.h>
#include <libxml/parserInternals.h>
#include <libxml/tree.h>
#include <set>

namespace vh {

namespace {

xmlDocPtr parseQuiet2(const std::string &s)
{
    xmlParserCtxtPtr ctxt = xmlCreateMemoryParserCtxt(s.data(), static_cast<int>(s.size()));
    if (ctxt == nullptr) {
        return nullptr;
    }
    ctxt->keepBlanks = 1;
    if (ctxt->sax != nullptr) {
        ctxt->sax->error = nullptr;
        ctxt->sax->warning = nullptr;
        ctxt->sax->serror = nullptr;
        ctxt->sax->ignorableWhitespace = ctxt->sax->characters;
    }
    ctxt->vctxt.error = nullptr;
    ctxt->vctxt.warning = nullptr;
    xmlCtxtUseOptions(ctxt, XML_PARSE_NOERROR | XML_PARSE_NOWARNING | XML_PARSE_NONET | XML_PARSE_HUGE);
    xmlParseDocument(ctxt);
    xmlDocPtr doc = ctxt->myDoc;
    bool ok = ctxt->wellFormed != 0;
    xmlFreeParserCtxt(ctxt);
    if (doc != nullptr && !ok) {
        xmlFreeDoc(doc);
        doc = nullptr;
    }
    return doc;
}

void collect2(xmlNodePtr n, std::vector<xmlNodePtr> &els, int depth = 0)
{
    for (; n != nullptr; n = n->next) {
        if (n->type == XML_ELEMENT_NODE) {
            els.push_back(n);
            if (depth < 400) {
                collect2(n->children, els, depth + 1);
            }
        }
    }
}

std::string nname(xmlNodePtr n)
{
    return n->name != nullptr ? reinterpret_cast<const char *>(n->name) : "";
}

xmlNodePtr textChildOf(xmlNodePtr e)
{
    for (xmlNodePtr c = e->children; c != nullptr; c = c->next) {
        if (c->type == XML_TEXT_NODE && c->content != nullptr) {
            const char *p = reinterpret_cast<const char *>(c->content);
            while (*p == ' ' || *p == '\n' || *p == '\t' || *p == '\r') {
                ++p;
            }
            if (*p != 0) {
                return c;
            }
        }
    }
    return nullptr;
}

} // namespace

const std::vector<std::string> &libraryLiterals()
{
    static std::vector<std::string> lits;
    static bool loaded = false;
    if (loaded) {
        return lits;
    }
    loaded = true;
    const char *repo = getenv("VERIF_REPO");
    std::string root = std::string(repo != nullptr ? repo : "/repo") + "/src";
    auto files = listFiles(root, false);
    std::sort(files.begin(), files.end());
    std::set<std::string> seen;
    for (const auto &f : files) {
        size_t n = f.size();
        if (n < 5 || f.substr(n - 4) != ".cpp") {
            continue;
        }
        if (f.find("generatorprofile") != std::string::npos || f.find("debug") != std::string::npos || f.find("mathmldtd") != std::string::npos) {
            continue; // code templates and the DTD: thousands of literals, none of them interpreted by the library
        }
        std::string s = readFile(f);
        for (size_t i = 0; i < s.size(); ++i) {
            if (s[i] == '/' && i + 1 < s.size() && s[i + 1] == '/') {
                while (i < s.size() && s[i] != '\n') {
                    ++i;
                }
                continue;
            }
            if (s[i] == '\'' && i + 2 < s.size()) { // character literal
                i += s[i + 1] == '\\' ? 3 : 2;
                continue;
            }
            if (s[i] != '"') {
                continue;
            }
            std::string lit;
            size_t j = i + 1;
            bool plain = true;
            for (; j < s.size() && s[j] != '"' && s[j] != '\n'; ++j) {
                if (s[j] == '\\') {
                    plain = false;
                    ++j;
                    continue;
                }
                lit += s[j];
            }
            i = j;
            if (plain && lit.size() >= 2 && lit.size() <= 48 && seen.insert(lit).second) {
                lits.push_back(lit);
            }
        }
    }
    if (lits.empty()) {
        lits.push_back("NOT ORIGIN: ");
    }
    return lits;
}

std::string mutateHostileXml(const std::string &xml, Rng &rng, int nmut, std::string &desc)
{
    xmlDocPtr doc = parseQuiet2(xml);
    if (doc == nullptr) {
        return mutateBytes(xml, rng, nmut, desc);
    }
    bool wantDoctype = false;
    for (int k = 0; k < nmut; ++k) {
        std::vector<xmlNodePtr> els;
        collect2(xmlDocGetRootElement(doc), els);
        if (els.empty()) {
            break;
        }
        int op = rng.range(0, 5);
        switch (op) {
        case 0: { // comment / PI / CDATA next to or inside the text of an element
            std::vector<xmlNodePtr> withText;
            std::vector<xmlNodePtr> leaves;
            for (auto e : els) {
                if (textChildOf(e) != nullptr) {
                    withText.push_back(e);
                    std::string nn = nname(e);
                    if (nn == "ci" || nn == "cn") {
                        leaves.push_back(e);
                    }
                }
            }
            xmlNodePtr e = !leaves.empty() && rng.chance(0.7) ? rng.pick(leaves) : (!withText.empty() ? rng.pick(withText) : rng.pick(els));
            xmlNodePtr t = textChildOf(e);
            int what = rng.range(0, 2);
            int where = rng.range(0, 2); // before, after, in the middle of the text
            xmlNodePtr ins = nullptr;
            if (what == 0) {
                ins = xmlNewDocComment(doc, BAD_CAST (rng.chance(0.5) ? "c" : " a comment with <markup> & ampersands "));
            } else if (what == 1) {
                ins = xmlNewDocPI(doc, BAD_CAST "verif", BAD_CAST "pi content");
            } else {
                std::string body = t != nullptr && rng.chance(0.6) ? reinterpret_cast<const char *>(t->content) : "x";
                ins = xmlNewCDataBlock(doc, BAD_CAST body.c_str(), static_cast<int>(body.size()));
                if (t != nullptr && rng.chance(0.5)) {
                    xmlNodeSetContent(t, BAD_CAST ""); // the CDATA section now carries the text alone
                }
            }
            if (ins == nullptr) {
                break;
            }
            if (t == nullptr) {
                xmlAddChild(e, ins);
            } else if (where == 0) {
                xmlAddPrevSibling(t, ins);
            } else if (where == 1) {
                xmlAddNextSibling(t, ins);
            } else {
                std::string txt = reinterpret_cast<const char *>(t->content);
                size_t cut = txt.size() / 2;
                while (cut < txt.size() && (static_cast<unsigned char>(txt[cut]) & 0xC0) == 0x80) {
                    ++cut; // not inside a UTF-8 sequence
                }
                xmlNodePtr tail = xmlNewDocText(doc, BAD_CAST txt.substr(cut).c_str());
                xmlNodeSetContent(t, nullptr);
                xmlNodeAddContent(t, BAD_CAST txt.substr(0, cut).c_str());
                xmlAddNextSibling(t, ins);
                if (tail != nullptr) {
                    xmlAddNextSibling(ins, tail);
                }
            }
            desc += std::string(what == 0 ? "comment" : (what == 1 ? "pi" : "cdata")) + (where == 0 ? "-before" : (where == 1 ? "-after" : "-inside")) + "-text(" + nname(e) + ");";
            break;
        }
        case 1: { // twin attribute in another namespace
            std::vector<xmlNodePtr> withAttr;
            for (auto e : els) {
                if (e->properties != nullptr) {
                    withAttr.push_back(e);
                }
            }
            if (withAttr.empty()) {
                continue;
            }
            xmlNodePtr e = rng.pick(withAttr);
            std::vector<xmlAttrPtr> attrs;
            for (xmlAttrPtr a = e->properties; a != nullptr; a = a->next) {
                attrs.push_back(a);
            }
            xmlAttrPtr a = rng.pick(attrs);
            std::string uri = rng.pick(kNamespaces);
            if (uri.empty() || (a->ns != nullptr && a->ns->href != nullptr && uri == reinterpret_cast<const char *>(a->ns->href))) {
                uri = "http://www.cellml.org/cellml/2.0#";
                if (a->ns != nullptr) {
                    uri = "http://example.org/unknown";
                }
            }
            std::string pfx = "tw" + std::to_string(rng.range(0, 9));
            xmlNsPtr ns = xmlNewNs(e, BAD_CAST uri.c_str(), BAD_CAST pfx.c_str());
            if (ns == nullptr) {
                continue;
            }
            xmlChar *val = xmlNodeGetContent(reinterpret_cast<xmlNodePtr>(a));
            std::string v = val != nullptr ? reinterpret_cast<const char *>(val) : "";
            if (val != nullptr) {
                xmlFree(val);
            }
            if (rng.chance(0.5)) {
                v = rng.chance(0.5) ? "b" : rng.pick(kHostileIdentifiers).substr(0, 40);
            }
            xmlSetNsProp(e, ns, a->name, BAD_CAST v.c_str());
            desc += "twinattr(" + nname(e) + "@" + pfx + ":" + reinterpret_cast<const char *>(a->name) + ");";
            break;
        }
        case 2: { // blow one text / attribute value up (document stays below 64 KiB)
            static const std::vector<std::string> fillers = {" ", "\n", "\t", "a", "1", "(", "9", "-", ".", "e", "<", "&", "é"};
            const std::string &f = rng.pick(fillers);
            size_t budget = xml.size() < 60000 ? 62000 - xml.size() : 2000;
            size_t len = std::min<size_t>(budget, static_cast<size_t>(rng.pick(std::vector<int>{3000, 12000, 30000, 60000})));
            std::string pad;
            for (size_t i = 0; i < len / f.size(); ++i) {
                pad += f;
            }
            xmlNodePtr e = rng.pick(els);
            std::vector<xmlNodePtr> leaves;
            for (auto x : els) {
                std::string nn = nname(x);
                if (nn == "ci" || nn == "cn") {
                    leaves.push_back(x);
                }
            }
            int target = rng.range(0, 2);
            if (target == 0 && !leaves.empty()) { // text of a ci/cn
                xmlNodePtr l = rng.pick(leaves);
                xmlNodePtr t = textChildOf(l);
                std::string txt = t != nullptr ? reinterpret_cast<const char *>(t->content) : "";
                int how = rng.range(0, 2);
                std::string nv = how == 0 ? pad + txt : (how == 1 ? txt + pad : pad);
                xmlChar *enc = xmlEncodeSpecialChars(doc, BAD_CAST nv.c_str());
                xmlNodeSetContent(l, enc);
                xmlFree(enc);
                desc += "bigtext(" + nname(l) + "," + (f == "\n" ? "\\n" : (f == "\t" ? "\\t" : f)) + "x" + std::to_string(len) + ");";
            } else if (target == 1 && e->properties != nullptr) { // an attribute value
                std::vector<xmlAttrPtr> attrs;
                for (xmlAttrPtr a = e->properties; a != nullptr; a = a->next) {
                    attrs.push_back(a);
                }
                xmlAttrPtr a = rng.pick(attrs);
                xmlChar *val = xmlNodeGetContent(reinterpret_cast<xmlNodePtr>(a));
                std::string v = val != nullptr ? reinterpret_cast<const char *>(val) : "";
                if (val != nullptr) {
                    xmlFree(val);
                }
                std::string nv = rng.chance(0.5) ? pad + v : v + pad;
                xmlChar *enc = xmlEncodeSpecialChars(doc, BAD_CAST nv.c_str());
                xmlNodeSetContent(reinterpret_cast<xmlNodePtr>(a), enc);
                xmlFree(enc);
                desc += "bigattr(" + nname(e) + "@" + reinterpret_cast<const char *>(a->name) + "," + (f == "\n" ? "\\n" : (f == "\t" ? "\\t" : f)) + "x" + std::to_string(len) + ");";
            } else { // blank text between the children of an element
                xmlChar *enc = xmlEncodeSpecialChars(doc, BAD_CAST pad.c_str());
                xmlNodePtr t = xmlNewDocText(doc, enc);
                xmlFree(enc);
                if (t != nullptr) {
                    if (e->children != nullptr) {
                        xmlAddPrevSibling(e->children, t);
                    } else {
                        xmlAddChild(e, t);
                    }
                }
                desc += "bigcontent(" + nname(e) + "," + (f == "\n" ? "\\n" : (f == "\t" ? "\\t" : f)) + "x" + std::to_string(len) + ");";
            }
            break;
        }
        case 3: { // a string literal of the library as a name / reference / text
            const auto &lits = libraryLiterals();
            std::string v = rng.pick(lits);
            if (rng.chance(0.3)) {
                v += rng.pick(std::vector<std::string>{"x", " x", "&", ";", "&a;b;c&", "&a&", "'", ": "});
            }
            std::vector<std::pair<xmlNodePtr, xmlAttrPtr>> slots;
            for (auto e : els) {
                for (xmlAttrPtr a = e->properties; a != nullptr; a = a->next) {
                    std::string an = reinterpret_cast<const char *>(a->name);
                    if (an == "name" || an == "id" || an == "units" || an == "href" || an == "component_ref" || an == "units_ref" || an == "variable" || an == "component") {
                        slots.emplace_back(e, a);
                    }
                }
            }
            if (slots.empty() || rng.chance(0.15)) {
                std::vector<xmlNodePtr> leaves;
                for (auto x : els) {
                    if (nname(x) == "ci" || nname(x) == "cn") {
                        leaves.push_back(x);
                    }
                }
                if (leaves.empty()) {
                    continue;
                }
                xmlNodePtr l = rng.pick(leaves);
                xmlChar *enc = xmlEncodeSpecialChars(doc, BAD_CAST v.c_str());
                xmlNodeSetContent(l, enc);
                xmlFree(enc);
                desc += "littext(" + nname(l) + "=" + truncateForLog(v, 30) + ");";
                break;
            }
            auto slot = rng.pick(slots);
            std::string an = reinterpret_cast<const char *>(slot.second->name);
            // keep references consistent when a name changes, so that the renamed item stays in use
            xmlChar *oldv = xmlNodeGetContent(reinterpret_cast<xmlNodePtr>(slot.second));
            std::string old = oldv != nullptr ? reinterpret_cast<const char *>(oldv) : "";
            if (oldv != nullptr) {
                xmlFree(oldv);
            }
            xmlChar *enc = xmlEncodeSpecialChars(doc, BAD_CAST v.c_str());
            if (an == "name" && !old.empty() && rng.chance(0.7)) {
                std::string en = nname(slot.first);
                for (auto e : els) {
                    for (xmlAttrPtr a = e->properties; a != nullptr; a = a->next) {
                        std::string bn = reinterpret_cast<const char *>(a->name);
                        bool refers = (en == "component" && (bn == "component" || bn == "component_1" || bn == "component_2")) || (en == "units" && bn == "units") || (en == "variable" && (bn == "variable" || bn == "variable_1" || bn == "variable_2" || bn == "test_variable"));
                        if (!refers) {
                            continue;
                        }
                        xmlChar *cv = xmlNodeGetContent(reinterpret_cast<xmlNodePtr>(a));
                        bool same = cv != nullptr && old == reinterpret_cast<const char *>(cv);
                        if (cv != nullptr) {
                            xmlFree(cv);
                        }
                        if (same) {
                            xmlNodeSetContent(reinterpret_cast<xmlNodePtr>(a), enc);
                        }
                    }
                }
            }
            xmlNodeSetContent(reinterpret_cast<xmlNodePtr>(slot.second), enc);
            xmlFree(enc);
            desc += "litattr(" + nname(slot.first) + "@" + an + "=" + truncateForLog(v, 30) + ");";
            break;
        }
        case 4: { // DOCTYPE + entity references (applied to the serialised text below)
            wantDoctype = true;
            break;
        }
        case 5: { // units DAG: u_k = u_{k-1} x u_{k-1}
            xmlNodePtr root = xmlDocGetRootElement(doc);
            int depth = rng.pick(std::vector<int>{3, 6, 10, 14});
            std::string base = "dag" + std::to_string(rng.range(0, 99)) + "_";
            xmlNodePtr u0 = xmlNewChild(root, root->ns, BAD_CAST "units", nullptr);
            xmlSetProp(u0, BAD_CAST "name", BAD_CAST (base + "0").c_str());
            xmlNodePtr k0 = xmlNewChild(u0, root->ns, BAD_CAST "unit", nullptr);
            xmlSetProp(k0, BAD_CAST "units", BAD_CAST "second");
            for (int i = 1; i <= depth; ++i) {
                xmlNodePtr u = xmlNewChild(root, root->ns, BAD_CAST "units", nullptr);
                xmlSetProp(u, BAD_CAST "name", BAD_CAST (base + std::to_string(i)).c_str());
                for (int j = 0; j < 2; ++j) {
                    xmlNodePtr kk = xmlNewChild(u, root->ns, BAD_CAST "unit", nullptr);
                    xmlSetProp(kk, BAD_CAST "units", BAD_CAST (base + std::to_string(i - 1)).c_str());
                    if (j == 1 && rng.chance(0.5)) {
                        xmlSetProp(kk, BAD_CAST "exponent", BAD_CAST "-1");
                    }
                }
            }
            // use it: every variable of one component, or one variable
            std::vector<xmlNodePtr> vars;
            for (auto e : els) {
                if (nname(e) == "variable") {
                    vars.push_back(e);
                }
            }
            if (!vars.empty()) {
                std::string top = base + std::to_string(depth);
                int n = rng.range(1, 3);
                for (int i = 0; i < n; ++i) {
                    xmlSetProp(rng.pick(vars), BAD_CAST "units", BAD_CAST top.c_str());
                }
            }
            desc += "unitsdag(" + std::to_string(depth) + ");";
            break;
        }
        default:
            break;
        }
    }
    xmlChar *mem = nullptr;
    int size = 0;
    xmlDocDumpMemory(doc, &mem, &size);
    std::string out;
    if (mem != nullptr) {
        out.assign(reinterpret_cast<char *>(mem), static_cast<size_t>(size));
        xmlFree(mem);
    }
    std::string rootName = xmlDocGetRootElement(doc) != nullptr ? nname(xmlDocGetRootElement(doc)) : "model";
    xmlFreeDoc(doc);
    if (wantDoctype) {
        size_t rootPos = out.find("<" + rootName);
        if (rootPos == std::string::npos) {
            rootPos = out.find('<', out.find("?>") == std::string::npos ? 0 : out.find("?>") + 2);
        }
        if (rootPos != std::string::npos) {
            static const std::vector<std::string> subsets = {
                "<!ENTITY e \"x\">",
                "<!ENTITY e \"x\"><!ENTITY m \"<ci xmlns='http://www.w3.org/1998/Math/MathML'>x</ci>\">",
                "<!ENTITY e \"x\"><!ENTITY n \"&e;&e;&e;\"><!ENTITY o \"&n;&n;&n;\">",
                "<!ENTITY e \"\">",
                "<!ENTITY e SYSTEM \"nonexistent.ent\">",
                "<!ELEMENT " "model ANY><!ATTLIST model extra CDATA \"defaulted\"><!ENTITY e \"x\">",
                "<!ENTITY e \"1\"><!ENTITY m \"<cn xmlns='http://www.w3.org/1998/Math/MathML' xmlns:cellml='http://www.cellml.org/cellml/2.0#' cellml:units='dimensionless'>1</cn>\">"};
            const std::string &subset = rng.pick(subsets);
            std::string dt = "<!DOCTYPE " + rootName + " [" + subset + "]>\n";
            out.insert(rootPos, dt);
            // references: in element content and in attribute values, after the DOCTYPE
            int nrefs = rng.range(1, 3);
            std::vector<std::string> names = {"e"};
            if (subset.find("ENTITY m") != std::string::npos) {
                names.push_back("m");
            }
            if (subset.find("ENTITY o") != std::string::npos) {
                names.push_back("o");
                names.push_back("n");
            }
            for (int r = 0; r < nrefs; ++r) {
                std::string ref = "&" + rng.pick(names) + ";";
                size_t from = rootPos + dt.size();
                std::vector<size_t> spots;
                int kind = rng.range(0, 2);
                std::string needle = kind == 0 ? "<ci>" : (kind == 1 ? "=\"" : ">");
                for (size_t p = out.find(needle, from); p != std::string::npos; p = out.find(needle, p + 1)) {
                    spots.push_back(p + needle.size());
                    if (spots.size() > 4000) {
                        break;
                    }
                }
                if (spots.empty()) {
                    continue;
                }
                out.insert(rng.pick(spots), ref);
                desc += "entityref(" + ref + (kind == 0 ? " in ci" : (kind == 1 ? " in attribute" : " in content")) + ");";
            }
            desc += "doctype;";
        }
    }
    if (out.size() > 65536 * 4) {
        out.resize(65536 * 4);
    }
    return out;
}

} // namespace vh
