// C11: clone() is a faithful, independent deep copy.
// Oracle: canonical dump (public getters) and Printer output of original vs clone; equals(); parent(); then one
// mutation on one side (incl. through shared handles) must leave the other side's dump unchanged.
#include "gen.h"
#include "vh.h"

#include <cstring>

using namespace vh;

int64_t vh_case_count(const std::string &tier, uint64_t)
{
    return tier == "thorough" ? 60000 : 5000;
}

static std::string firstWord(const std::string &diff)
{
    size_t a = diff.find("[");
    std::string line = a == std::string::npos ? diff : trim(diff.substr(a + 1));
    std::string kw = line.substr(0, line.find_first_of(" ="));
    return kw.empty() ? "?" : kw;
}

// What differs inside the first differing line (attribute name), for specific keys.
static std::string diffAttr(const std::string &a, const std::string &b)
{
    std::vector<std::string> la;
    std::vector<std::string> lb;
    std::stringstream sa(a);
    std::stringstream sb(b);
    std::string l;
    while (std::getline(sa, l)) {
        la.push_back(l);
    }
    while (std::getline(sb, l)) {
        lb.push_back(l);
    }
    for (size_t i = 0; i < la.size() && i < lb.size(); ++i) {
        if (la[i] != lb[i]) {
            // tokens "key=value"
            std::stringstream ta(la[i]);
            std::stringstream tb(lb[i]);
            std::string wa;
            std::string wb;
            std::string kind;
            ta >> kind;
            tb >> wb;
            while (ta >> wa && tb >> wb) {
                if (wa != wb) {
                    return kind + "." + wa.substr(0, wa.find('='));
                }
            }
            return kind + ".?";
        }
    }
    return la.size() != lb.size() ? "line-count" : "";
}

// Paths in reset lines are rooted at the model; a lone clone has no parent, so keep only the last path segment.
static std::string localPaths(std::string s)
{
    for (const char *k : {" var=\"", " testvar=\""}) {
        size_t from = 0;
        while (true) {
            size_t p = s.find(k, from);
            if (p == std::string::npos) {
                break;
            }
            size_t b = p + strlen(k);
            size_t e = s.find('"', b);
            if (e == std::string::npos) {
                break;
            }
            std::string path = s.substr(b, e - b);
            size_t dot = path.rfind('.');
            size_t slash = path.rfind('/', dot == std::string::npos ? path.size() : dot);
            if (slash != std::string::npos) {
                path = path.substr(slash + 1);
            }
            s.replace(b, e - b, path);
            from = b + path.size();
        }
    }
    return s;
}

static ModelPtr owningModelOf(const VariablePtr &v)
{
    ParentedEntityPtr p = v->parent();
    int guard = 0;
    while (p != nullptr && guard++ < 500) {
        auto m = std::dynamic_pointer_cast<Model>(p);
        if (m != nullptr) {
            return m;
        }
        p = p->parent();
    }
    return nullptr;
}

struct Side
{
    ModelPtr model;
};

// A catalogue of single mutations applicable to a model through the public API (incl. shared handles).
static std::string applyMutation(const ModelPtr &m, Rng &rng)
{
    auto comps = allComponents(m);
    auto vars = allVariables(m);
    for (int attempt = 0; attempt < 40; ++attempt) {
        int k = rng.range(0, 21);
        switch (k) {
        case 0:
            m->setName(m->name() + "Z");
            return "model.setName";
        case 1:
            m->setId(m->id() + "Z");
            return "model.setId";
        case 2:
            if (comps.empty()) {
                break;
            }
            rng.pick(comps)->setName("renamedZ");
            return "component.setName";
        case 3:
            if (comps.empty()) {
                break;
            }
            rng.pick(comps)->setMath("<math xmlns=\"http://www.w3.org/1998/Math/MathML\"><apply><eq/><cn>1</cn><cn>2</cn></apply></math>");
            return "component.setMath";
        case 4:
            if (vars.empty()) {
                break;
            }
            rng.pick(vars)->setInitialValue("987.5");
            return "variable.setInitialValue";
        case 5:
            if (vars.empty()) {
                break;
            }
            rng.pick(vars)->setName("renamedVarZ");
            return "variable.setName";
        case 6:
            if (vars.empty()) {
                break;
            }
            rng.pick(vars)->setInterfaceType("public_and_private");
            rng.pick(vars)->setId("newVarIdZ");
            return "variable.setId";
        case 7: {
            // through the shared handle: the units object a variable holds
            std::vector<VariablePtr> withUnits;
            for (const auto &v : vars) {
                if (v->units() != nullptr) {
                    withUnits.push_back(v);
                }
            }
            if (withUnits.empty()) {
                break;
            }
            rng.pick(withUnits)->units()->setName("renamedThroughVariableZ");
            return "variable.units()->setName";
        }
        case 8: {
            if (m->unitsCount() == 0) {
                break;
            }
            m->units(rng.below(m->unitsCount()))->addUnit("candela", "kilo", 2.0, 3.0, "addedUnitZ");
            return "units.addUnit";
        }
        case 9: {
            if (m->unitsCount() == 0) {
                break;
            }
            auto u = m->units(rng.below(m->unitsCount()));
            if (u->unitCount() == 0) {
                break;
            }
            u->removeUnit(static_cast<size_t>(0));
            return "units.removeUnit";
        }
        case 10: {
            if (m->unitsCount() == 0) {
                break;
            }
            m->units(rng.below(m->unitsCount()))->setName("renamedUnitsZ");
            return "units.setName";
        }
        case 11: {
            // through the shared handle: importSource() of an imported component / units
            std::vector<ImportSourcePtr> srcs;
            for (const auto &c : comps) {
                if (c->isImport()) {
                    srcs.push_back(c->importSource());
                }
            }
            for (size_t i = 0; i < m->unitsCount(); ++i) {
                if (m->units(i)->isImport()) {
                    srcs.push_back(m->units(i)->importSource());
                }
            }
            if (srcs.empty()) {
                break;
            }
            auto s = rng.pick(srcs);
            if (rng.chance(0.5)) {
                s->setUrl(s->url() + ".changed");
                return "importSource()->setUrl";
            }
            s->setId(s->id() + "Z");
            return "importSource()->setId";
        }
        case 12: {
            std::vector<ResetPtr> rs;
            for (const auto &c : comps) {
                for (size_t i = 0; i < c->resetCount(); ++i) {
                    rs.push_back(c->reset(i));
                }
            }
            if (rs.empty()) {
                break;
            }
            auto r = rng.pick(rs);
            int w = rng.range(0, 3);
            if (w == 0) {
                r->setOrder(r->order() + 77);
                return "reset.setOrder";
            }
            if (w == 1) {
                r->setTestValue("<math xmlns=\"http://www.w3.org/1998/Math/MathML\"><cn>5</cn></math>");
                return "reset.setTestValue";
            }
            if (w == 2) {
                r->setResetValueId("rvZ");
                return "reset.setResetValueId";
            }
            // through the shared handle: the variable a reset refers to
            if (r->variable() != nullptr) {
                r->variable()->setInitialValue("4242");
                return "reset.variable()->setInitialValue";
            }
            break;
        }
        case 13: {
            if (comps.empty()) {
                break;
            }
            auto c = rng.pick(comps);
            c->addVariable(Variable::create("addedVarZ"));
            return "component.addVariable";
        }
        case 14: {
            if (vars.empty()) {
                break;
            }
            auto v = rng.pick(vars);
            auto c = std::dynamic_pointer_cast<Component>(v->parent());
            if (c == nullptr) {
                break;
            }
            c->removeVariable(v);
            return "component.removeVariable";
        }
        case 15: {
            if (vars.size() < 2) {
                break;
            }
            auto a = rng.pick(vars);
            auto b = rng.pick(vars);
            if (a == b || a->parent() == b->parent()) {
                break;
            }
            Variable::addEquivalence(a, b, "mapZ", "connZ");
            return "Variable::addEquivalence";
        }
        case 16: {
            std::vector<VariablePtr> eq;
            for (const auto &v : vars) {
                if (v->equivalentVariableCount() > 0) {
                    eq.push_back(v);
                }
            }
            if (eq.empty()) {
                break;
            }
            auto v = rng.pick(eq);
            if (rng.chance(0.5)) {
                Variable::removeEquivalence(v, v->equivalentVariable(0));
                return "Variable::removeEquivalence";
            }
            Variable::setEquivalenceMappingId(v, v->equivalentVariable(0), "changedMapZ");
            return "Variable::setEquivalenceMappingId";
        }
        case 17:
            if (comps.empty()) {
                break;
            }
            rng.pick(comps)->setEncapsulationId("encZ");
            return "component.setEncapsulationId";
        case 18:
            m->removeAllComponents();
            return "model.removeAllComponents";
        case 19:
            m->addUnits(Units::create("addedUnitsZ"));
            return "model.addUnits";
        case 20: {
            if (vars.empty()) {
                break;
            }
            rng.pick(vars)->setUnits("candela");
            return "variable.setUnits";
        }
        case 21: {
            if (comps.empty()) {
                break;
            }
            rng.pick(comps)->addComponent(Component::create("addedChildZ"));
            return "component.addComponent";
        }
        default:
            break;
        }
    }
    m->setName(m->name() + "Z");
    return "model.setName";
}

void vh_run_case(Ctx &ctx)
{
    Rng &rng = ctx.rng;
    GenOptions go;
    go.weirdIds = rng.chance(0.15); // invalid models are in scope too
    go.mathProbability = 0.4;
    IrModel ir = generateModel(rng, go);
    bool fromText = rng.chance(0.4) && !go.weirdIds;
    ModelPtr m;
    std::string replay;
    if (fromText) {
        std::string text = writeCellml2(ir, rng);
        m = Parser::create(true)->parseModel(text);
        replay = text;
    } else {
        m = buildApi(ir);
        replay = "api-built:\n" + dumpIr(ir);
    }
    if (m == nullptr) {
        caseInfo("", false);
        return;
    }
    bool unsetOrders = rng.chance(0.3);
    auto dropOrders = [&](const ModelPtr &mm) {
        // resets without an order are invalid but in scope ("valid or not"); deterministic choice: every second reset
        size_t k = 0;
        for (const auto &c : allComponents(mm)) {
            for (size_t i = 0; i < c->resetCount(); ++i) {
                if ((k++ % 2) == 0) {
                    c->reset(i)->removeOrder();
                }
            }
        }
    };
    if (unsetOrders) {
        dropOrders(m);
    }
    std::string d0 = dumpModel(m);
    auto printer = Printer::create();
    std::string p0 = printer->printModel(m);
    int checks = 0;

    // ---------- model clone ----------
    stage("Model::clone");
    auto cl = m->clone();
    std::string dc = dumpModel(cl);
    ++checks;
    if (dumpModel(m) != d0) {
        viol("C11", "clone:model:clone-changed-original", firstDiff(d0, dumpModel(m)), replay);
    }
    if (dc != d0) {
        viol("C11", "clone:model:content-differs:" + diffAttr(d0, dc), "A=original B=clone: " + firstDiff(d0, dc), replay);
    }
    std::string pc = printer->printModel(cl);
    if (pc != p0 && !p0.empty()) {
        // Printer-based comparison ("serialisation has the same content"): child order in the document is not content,
        // so both documents are re-read and compared canonically.
        auto r0 = Parser::create(true)->parseModel(p0);
        auto r1 = pc.empty() ? nullptr : Parser::create(true)->parseModel(pc);
        std::string s0 = dumpModel(r0);
        std::string s1 = dumpModel(r1);
        if (s0 != s1 && dc == d0) {
            viol("C11", "clone:model:printed-differs:" + diffAttr(s0, s1), "getter-based dumps agree but the printed documents differ in content: " + firstDiff(s0, s1), replay);
        }
    }
    if (!m->equals(cl) || !cl->equals(m)) {
        viol("C11", "clone:model:not-equal", "model and its clone are not equals()", replay);
    }
    if (cl->parent() != nullptr || cl->hasParent()) {
        viol("C11", "clone:model:has-parent", "", replay);
    }
    // equivalences inside the clone connect only the clone's own variables; resets refer to the clone's variables
    for (const auto &v : allVariables(cl)) {
        for (size_t i = 0; i < v->equivalentVariableCount(); ++i) {
            auto e = v->equivalentVariable(i);
            ++checks;
            if (e == nullptr || owningModelOf(e) != cl) {
                viol("C11", "clone:model:equivalence-leaves-clone", "variable " + variablePath(v) + " of the clone is equivalent to a variable outside the clone", replay);
            }
        }
    }
    for (const auto &c : allComponents(cl)) {
        for (size_t i = 0; i < c->resetCount(); ++i) {
            auto r = c->reset(i);
            ++checks;
            if ((r->variable() != nullptr && r->variable()->parent() != c) || (r->testVariable() != nullptr && r->testVariable()->parent() != c)) {
                viol("C11", "clone:model:reset-variable-outside-clone", "reset of cloned component " + c->name() + " refers to a variable that is not the clone's own", replay);
            }
        }
        for (size_t i = 0; i < c->variableCount(); ++i) {
            auto u = c->variable(i)->units();
            if (u != nullptr && cl->hasUnits(u->name()) && cl->units(u->name()) != u && m->hasUnits(u)) {
                viol("C11", "clone:model:variable-holds-original-units", "variable " + c->variable(i)->name() + " of the clone holds the ORIGINAL model's units object", replay);
            }
        }
    }

    // ---------- independence: one mutation on one side ----------
    bool mutateClone = rng.chance(0.5);
    std::string mut = applyMutation(mutateClone ? cl : m, rng);
    seen("mutation", mut);
    std::string other = dumpModel(mutateClone ? m : cl);
    ++checks;
    if (other != (mutateClone ? d0 : dc)) {
        viol("C11", "clone:model:shared-state:" + mut, std::string("mutating the ") + (mutateClone ? "clone" : "original") + " with " + mut + " changed the other side: " + firstDiff(mutateClone ? d0 : dc, other), replay);
    }

    // ---------- lone entities (fresh model so that the mutation above does not interfere) ----------
    ModelPtr m2 = fromText ? Parser::create(true)->parseModel(replay) : buildApi(ir);
    if (unsetOrders) {
        dropOrders(m2);
    }
    auto comps = allComponents(m2);
    for (const auto &c : comps) {
        stage("Component::clone");
        std::string before = localPaths(dumpComponent(c));
        auto cc = c->clone();
        ++checks;
        std::string after = localPaths(dumpComponent(cc));
        if (before != after) {
            viol("C11", "clone:component:content-differs:" + diffAttr(before, after), "A=original B=clone: " + firstDiff(before, after), replay);
        }
        if (!c->equals(cc) || !cc->equals(c)) {
            viol("C11", "clone:component:not-equal", "", replay);
        }
        if (cc->parent() != nullptr) {
            viol("C11", "clone:component:has-parent", "", replay);
        }
        if (localPaths(dumpComponent(c)) != before) {
            viol("C11", "clone:component:clone-changed-original", "", replay);
        }
        for (size_t i = 0; i < cc->resetCount(); ++i) {
            auto r = cc->reset(i);
            if ((r->variable() != nullptr && r->variable()->parent() != cc) || (r->testVariable() != nullptr && r->testVariable()->parent() != cc)) {
                viol("C11", "clone:component:reset-variable-outside-clone", "", replay);
            }
        }
        for (size_t i = 0; i < c->variableCount(); ++i) {
            stage("Variable::clone");
            auto v = c->variable(i);
            auto vc = v->clone();
            ++checks;
            if (dumpVariable(v) != dumpVariable(vc)) {
                viol("C11", "clone:variable:content-differs:" + diffAttr(dumpVariable(v), dumpVariable(vc)), firstDiff(dumpVariable(v), dumpVariable(vc)), replay);
            }
            if (!v->equals(vc) || !vc->equals(v)) {
                viol("C11", "clone:variable:not-equal", "", replay);
            }
            if (vc->parent() != nullptr) {
                viol("C11", "clone:variable:has-parent", "", replay);
            }
            if (vc->equivalentVariableCount() != 0) {
                viol("C11", "clone:variable:equivalences-copied", "documented not to be copied for a lone variable", replay);
            }
            // independence through the units handle
            if (v->units() != nullptr && vc->units() == v->units()) {
                std::string b = dumpVariable(v);
                vc->units()->setName("cloneRenamedUnits");
                if (dumpVariable(v) != b) {
                    viol("C11", "clone:variable:shared-state:units()->setName", "", replay);
                }
                vc->units()->setName(v->units()->name());
            }
        }
        for (size_t i = 0; i < c->resetCount(); ++i) {
            stage("Reset::clone");
            auto r = c->reset(i);
            auto rc = r->clone();
            ++checks;
            DumpOptions o;
            std::string a = dumpReset(r, o);
            std::string b = dumpReset(rc, o);
            // a lone reset clone refers to clones of its variables: compare everything except the variable paths
            auto strip = [](std::string s) {
                for (const char *k : {" var=", " testvar="}) {
                    size_t p = s.find(k);
                    if (p != std::string::npos) {
                        size_t e = s.find('"', s.find('"', p) + 1);
                        s.erase(p, e - p + 1);
                    }
                }
                return s;
            };
            if (strip(a) != strip(b)) {
                viol("C11", "clone:reset:content-differs:" + diffAttr(strip(a), strip(b)), firstDiff(strip(a), strip(b)), replay);
            }
            if (!r->equals(rc) || !rc->equals(r)) {
                viol("C11", "clone:reset:not-equal:" + std::string(r->isOrderSet() ? "order-set" : "order-unset"), "", replay);
            }
            if (rc->parent() != nullptr) {
                viol("C11", "clone:reset:has-parent", "", replay);
            }
            if (r->variable() != nullptr && rc->variable() == r->variable()) {
                viol("C11", "clone:reset:shares-variable-object", "", replay);
            }
        }
    }
    for (size_t i = 0; i < m2->unitsCount(); ++i) {
        stage("Units::clone");
        auto u = m2->units(i);
        auto uc = u->clone();
        ++checks;
        if (dumpUnits(u) != dumpUnits(uc)) {
            viol("C11", "clone:units:content-differs:" + diffAttr(dumpUnits(u), dumpUnits(uc)), firstDiff(dumpUnits(u), dumpUnits(uc)), replay);
        }
        if (!u->equals(uc) || !uc->equals(u)) {
            viol("C11", "clone:units:not-equal", "", replay);
        }
        if (uc->parent() != nullptr) {
            viol("C11", "clone:units:has-parent", "", replay);
        }
        if (u->isImport() && uc->isImport() && u->importSource() == uc->importSource()) {
            std::string b = dumpUnits(u);
            uc->importSource()->setUrl(uc->importSource()->url() + ".x");
            if (dumpUnits(u) != b) {
                viol("C11", "clone:units:shared-state:importSource()->setUrl", "cloned units shares the ImportSource object of the original", replay);
            }
        }
    }
    for (const auto &c : comps) {
        if (c->isImport()) {
            auto cc = c->clone();
            if (cc->isImport() && cc->importSource() == c->importSource()) {
                std::string b = dumpComponent(c);
                cc->importSource()->setUrl(cc->importSource()->url() + ".y");
                ++checks;
                if (dumpComponent(c) != b) {
                    viol("C11", "clone:component:shared-state:importSource()->setUrl", "cloned component shares the ImportSource object of the original", replay);
                }
            }
        }
    }
    stat("clone_checks", checks);
    caseInfo(ir.structuralHash() + mut, ir.featureCount() >= 2, std::string(fromText ? "text" : "api") + " mutation=" + mut + " on " + (mutateClone ? "clone" : "original") + " comps=" + std::to_string(ir.comps.size()));
}
