// C07: import resolution terminates, succeeds exactly when possible, reports failures.
//
// One case = one scenario = (import graph written as a file set, one fault, importer mode).
//   * generator: import graphs as small CellML 2.0 files (IR below), either a member of the finite family
//     FAM(<=3 files, <=2 exported entities per file; enumGraphs) or a random graph with up to 6 files (randomGraph);
//   * reference resolver (struct Ref): works on the IR + per-file on-disk state only, never on libcellml objects;
//   * fault injector (enumerateFaults/applyFault);
//   * monitors (scenarioBody); scenarios that can run away (import cycles, plain units cycles, imports that are not
//     on a pure import chain from the root) are executed in a forked child (runIsolated) so that stack exhaustion
//     and non-termination get keys naming the operation, the fault class and the position of the failing import.
// See notes/C07.md.
#include "mutate.h"
#include "vh.h"
#include "vhc.h"

#include <algorithm>
#include <cstring>
#include <filesystem>
#include <functional>
#include <set>
#include <tuple>

#if defined(__SANITIZE_ADDRESS__)
#include <sanitizer/common_interface_defs.h>
#endif
#include <poll.h>
#include <signal.h>
#include <sys/resource.h>
#include <sys/wait.h>
#include <unistd.h>

using namespace vh;
namespace fs = std::filesystem;

namespace {

// ------------------------------------------------------------------------------------------------ IR
struct Ent
{
    bool isComp = true;
    std::string name;
    bool imp = false;
    int impFile = -1;
    std::string impRef;
    // local component: units name of each variable; local units: reference of each <unit> child
    std::vector<std::string> uses;
    int parent = -1; // components: index (in File::ents) of the encapsulating parent, -1 = top level
    std::string form; // short form code for the shape string
};

struct File
{
    std::string dir; // "" or "sub1/" (relative to the scenario directory)
    std::string fname;
    std::string mname;
    std::vector<Ent> ents;
    std::string path() const { return dir + fname; }
};

struct Graph
{
    std::vector<File> files;
    std::string origin; // "fam" or "rnd:<shape class>"

    int find(int f, const std::string &name, bool isComp) const
    {
        const auto &es = files[static_cast<size_t>(f)].ents;
        for (size_t i = 0; i < es.size(); ++i) {
            if (es[i].isComp == isComp && es[i].name == name) {
                return static_cast<int>(i);
            }
        }
        return -1;
    }
    size_t importEdges() const
    {
        size_t n = 0;
        for (const auto &f : files) {
            for (const auto &e : f.ents) {
                n += e.imp ? 1 : 0;
            }
        }
        return n;
    }
    // name-free structural description
    std::string shape() const
    {
        std::string s;
        for (size_t i = 0; i < files.size(); ++i) {
            s += (i ? " " : "") + std::string("f") + std::to_string(i) + (files[i].dir.empty() ? "" : "@d") + "[";
            for (size_t k = 0; k < files[i].ents.size(); ++k) {
                const Ent &e = files[i].ents[k];
                s += (k ? "," : "");
                s += e.isComp ? "C" : "U";
                if (e.imp) {
                    int t = e.impFile >= 0 && e.impFile < static_cast<int>(files.size()) ? find(e.impFile, e.impRef, e.isComp) : -1;
                    s += "i(" + std::to_string(e.impFile) + "." + (t < 0 ? std::string("?") : std::to_string(t)) + ")";
                } else {
                    for (const auto &u : e.uses) {
                        int t = find(static_cast<int>(i), u, false);
                        s += t < 0 ? "-s" : "-" + std::to_string(t);
                    }
                }
                if (e.parent >= 0) {
                    s += "^" + std::to_string(e.parent);
                }
            }
            s += "]";
        }
        return s;
    }
};

bool isStandardUnits(const std::string &n)
{
    return n == "second" || n == "metre" || n == "dimensionless" || n == "kilogram" || n == "volt";
}

std::string hrefFromTo(const File &a, const File &b)
{
    if (a.dir.empty()) {
        return b.dir + b.fname;
    }
    if (a.dir == b.dir) {
        return b.fname;
    }
    return "../" + b.dir + b.fname;
}

void writeEncapsulation(const File &f, int e, std::string &s, int depth, const char *tag, const char *attr)
{
    std::string ind(static_cast<size_t>(4 + 2 * depth), ' ');
    bool kids = false;
    for (const auto &c : f.ents) {
        kids = kids || (c.isComp && c.parent == e);
    }
    s += ind + "<" + tag + " " + attr + "=\"" + f.ents[static_cast<size_t>(e)].name + "\"";
    if (!kids) {
        s += "/>\n";
        return;
    }
    s += ">\n";
    for (size_t c = 0; c < f.ents.size(); ++c) {
        if (f.ents[c].isComp && f.ents[c].parent == e) {
            writeEncapsulation(f, static_cast<int>(c), s, depth + 1, tag, attr);
        }
    }
    s += ind + "</" + tag + ">\n";
}

// CellML 2.0 (v11 == false) or CellML 1.1 (v11 == true) text of one file of the graph.
std::string writeFileText(const Graph &g, size_t fi, bool v11)
{
    const File &f = g.files[fi];
    std::string s = std::string("<model xmlns=\"http://www.cellml.org/cellml/") + (v11 ? "1.1" : "2.0") + "#\" name=\"" + f.mname + "\">\n";
    for (const auto &e : f.ents) {
        if (e.imp) {
            s += "  <import xmlns:xlink=\"http://www.w3.org/1999/xlink\" xlink:href=\"" + hrefFromTo(f, g.files[static_cast<size_t>(e.impFile)]) + "\">\n";
            s += std::string("    <") + (e.isComp ? "component" : "units") + " name=\"" + e.name + "\" " + (e.isComp ? "component_ref" : "units_ref") + "=\"" + e.impRef + "\"/>\n";
            s += "  </import>\n";
        } else if (!e.isComp) {
            s += "  <units name=\"" + e.name + "\">\n";
            for (const auto &u : e.uses) {
                s += "    <unit units=\"" + u + "\"/>\n";
            }
            s += "  </units>\n";
        } else {
            s += "  <component name=\"" + e.name + "\">\n";
            for (size_t v = 0; v < e.uses.size(); ++v) {
                s += "    <variable name=\"v" + std::to_string(v) + "\" units=\"" + e.uses[v] + "\"/>\n";
            }
            s += "  </component>\n";
        }
    }
    bool anyKids = false;
    for (const auto &e : f.ents) {
        anyKids = anyKids || (e.isComp && e.parent >= 0);
    }
    if (anyKids) {
        s += v11 ? "  <group>\n    <relationship_ref relationship=\"encapsulation\"/>\n" : "  <encapsulation>\n";
        for (size_t e = 0; e < f.ents.size(); ++e) {
            if (!f.ents[e].isComp || f.ents[e].parent >= 0) {
                continue;
            }
            bool kids = false;
            for (const auto &c : f.ents) {
                kids = kids || (c.isComp && c.parent == static_cast<int>(e));
            }
            if (kids) {
                writeEncapsulation(f, static_cast<int>(e), s, 0, "component_ref", "component");
            }
        }
        s += v11 ? "  </group>\n" : "  </encapsulation>\n";
    }
    s += "</model>\n";
    return s;
}

// ------------------------------------------------------------------------------------------------ family FAM(3,2)
// Slot forms: C local component (variable in 'second'); U local units (one <unit units="second"/>);
// c component whose variable uses the sibling units; u units defined in terms of the sibling units;
// P local component that encapsulates the sibling component; I component import (file,slot); J units import (file,slot);
// Q component import that also encapsulates the sibling component.
struct Slot
{
    char t = 'C';
    int tf = -1;
    int ts = -1;
    bool comp() const { return t == 'C' || t == 'c' || t == 'P' || t == 'I' || t == 'Q'; }
    bool standalone() const { return t == 'C' || t == 'U' || t == 'I' || t == 'J'; }
    int ord() const { return (t == 'C' ? 0 : t == 'U' ? 1 : t == 'I' ? 2 : 3) * 100 + (tf < 0 ? 0 : tf * 10 + ts); }
};
using FileSpec = std::vector<Slot>;
using GraphSpec = std::vector<FileSpec>;

std::vector<FileSpec> fileSpecs(int i, const GraphSpec &later, int n)
{
    // later[j] valid for j > i
    std::vector<Slot> stand = {{'C', -1, -1}, {'U', -1, -1}};
    std::vector<Slot> compTargets;
    for (int j = i + 1; j < n; ++j) {
        for (size_t t = 0; t < later[static_cast<size_t>(j)].size(); ++t) {
            const Slot &s = later[static_cast<size_t>(j)][t];
            Slot imp {s.comp() ? 'I' : 'J', j, static_cast<int>(t)};
            stand.push_back(imp);
            if (s.comp()) {
                compTargets.push_back(imp);
            }
        }
    }
    std::vector<FileSpec> out;
    for (const auto &a : stand) {
        out.push_back({a});
    }
    for (const auto &a : stand) {
        for (const auto &b : stand) {
            if (a.ord() <= b.ord()) { // canonical order of two independent slots
                out.push_back({a, b});
            }
        }
    }
    for (const auto &a : stand) {
        std::vector<Slot> opts;
        if (!a.comp()) {
            opts.push_back({'c', -1, -1});
            opts.push_back({'u', -1, -1});
        } else {
            opts.push_back({'P', -1, -1});
            for (const auto &q : compTargets) {
                opts.push_back({'Q', q.tf, q.ts});
            }
        }
        for (const auto &o : opts) {
            out.push_back({o, a});
        }
    }
    return out;
}

void enumGraphs(int i, int n, GraphSpec &cur, std::vector<GraphSpec> &out)
{
    if (i < 0) {
        std::vector<bool> ref(static_cast<size_t>(n), false);
        for (const auto &fs : cur) {
            for (const auto &s : fs) {
                if (s.tf >= 0) {
                    ref[static_cast<size_t>(s.tf)] = true;
                }
            }
        }
        for (int j = 1; j < n; ++j) {
            if (!ref[static_cast<size_t>(j)]) {
                return; // every non-root file must be imported from by an earlier file
            }
        }
        out.push_back(cur);
        return;
    }
    for (const auto &fsp : fileSpecs(i, cur, n)) {
        cur[static_cast<size_t>(i)] = fsp;
        enumGraphs(i - 1, n, cur, out);
    }
}

std::string slotName(int f, int s, bool comp)
{
    return std::string(comp ? "c" : "u") + std::to_string(f) + "_" + std::to_string(s);
}

Graph buildFromSpec(const GraphSpec &gs)
{
    Graph g;
    g.origin = "fam";
    for (size_t i = 0; i < gs.size(); ++i) {
        File f;
        f.fname = "f" + std::to_string(i) + ".cellml";
        f.mname = "m" + std::to_string(i);
        for (size_t s = 0; s < gs[i].size(); ++s) {
            const Slot &sl = gs[i][s];
            Ent e;
            e.isComp = sl.comp();
            e.name = slotName(static_cast<int>(i), static_cast<int>(s), e.isComp);
            e.form = std::string(1, sl.t);
            size_t sib = 1 - s;
            switch (sl.t) {
            case 'C':
            case 'U':
            case 'P':
                e.uses = {"second"};
                break;
            case 'c':
            case 'u':
                e.uses = {slotName(static_cast<int>(i), static_cast<int>(sib), false)};
                break;
            default: // I J Q
                e.imp = true;
                e.impFile = sl.tf;
                e.impRef = slotName(sl.tf, sl.ts, gs[static_cast<size_t>(sl.tf)][static_cast<size_t>(sl.ts)].comp());
                break;
            }
            f.ents.push_back(e);
        }
        for (size_t s = 0; s < gs[i].size(); ++s) {
            if (gs[i][s].t == 'P' || gs[i][s].t == 'Q') {
                f.ents[1 - s].parent = static_cast<int>(s);
            }
        }
        g.files.push_back(f);
    }
    return g;
}

// ------------------------------------------------------------------------------------------------ faults
struct Fault
{
    enum Type
    {
        NONE,
        MISSING,
        TRUNC,
        NONCELLML,
        V11,
        ISDIR,
        RENAME,
        CYCLE,
        UCYC
    } type = NONE;
    int file = -1; // file hit (MISSING..V11, RENAME: file of the renamed entity, CYCLE: file of the entity turned into a back edge, UCYC)
    int ent = -1;
    int k = 0; // truncation class / cycle length / units-cycle length
    int af = -1; // CYCLE: ancestor the back edge points to
    int ae = -1;
    bool flattenFirst = false; // UCYC: call flattenModel before hasUnresolvedImports
    std::string cls; // stable fault class used in keys
    std::string desc; // printable
};

enum FileState
{
    ST_OK,
    ST_MISSING,
    ST_BADXML,
    ST_NONCELLML,
    ST_V11,
    ST_UNREADABLE // a directory sits where the file should be: open() succeeds, read() fails with EISDIR
};

// import entities whose target is (f,e)
std::vector<std::pair<int, int>> preds(const Graph &g, int f, int e)
{
    std::vector<std::pair<int, int>> out;
    const Ent &t = g.files[static_cast<size_t>(f)].ents[static_cast<size_t>(e)];
    for (size_t i = 0; i < g.files.size(); ++i) {
        for (size_t k = 0; k < g.files[i].ents.size(); ++k) {
            const Ent &x = g.files[i].ents[k];
            if (x.imp && x.impFile == f && x.isComp == t.isComp && x.impRef == t.name) {
                out.emplace_back(static_cast<int>(i), static_cast<int>(k));
            }
        }
    }
    return out;
}

std::vector<Fault> enumerateFaults(const Graph &g)
{
    std::vector<Fault> out;
    Fault none;
    none.cls = "none";
    none.desc = "no fault";
    out.push_back(none);
    int n = static_cast<int>(g.files.size());
    for (int j = 1; j < n; ++j) {
        std::string fn = g.files[static_cast<size_t>(j)].path();
        Fault f;
        f.file = j;
        f.type = Fault::MISSING;
        f.cls = "missing";
        f.desc = fn + " deleted";
        out.push_back(f);
        for (int c = 0; c <= 4; ++c) {
            f.type = Fault::TRUNC;
            f.k = c;
            f.cls = "trunc" + std::to_string(c);
            f.desc = fn + " truncated (class " + std::to_string(c) + ")";
            out.push_back(f);
        }
        f.k = 0;
        f.type = Fault::NONCELLML;
        f.cls = "noncellml";
        f.desc = fn + " replaced by an XHTML document";
        out.push_back(f);
        f.type = Fault::V11;
        f.cls = "cellml11";
        f.desc = fn + " replaced by its CellML 1.1 rendering";
        out.push_back(f);
        f.type = Fault::ISDIR;
        f.cls = "read-error";
        f.desc = fn + " replaced by a directory of the same name (open succeeds, read fails with EISDIR)";
        out.push_back(f);
    }
    // referenced entity renamed (consistently inside its own file, so that only the imports dangle)
    std::set<std::pair<int, int>> targets;
    for (const auto &fl : g.files) {
        for (const auto &e : fl.ents) {
            if (e.imp) {
                int t = g.find(e.impFile, e.impRef, e.isComp);
                if (t >= 0) {
                    targets.insert({e.impFile, t});
                }
            }
        }
    }
    for (const auto &t : targets) {
        const Ent &e = g.files[static_cast<size_t>(t.first)].ents[static_cast<size_t>(t.second)];
        Fault f;
        f.type = Fault::RENAME;
        f.file = t.first;
        f.ent = t.second;
        f.cls = std::string("ref-removed:") + (e.isComp ? "component" : "units") + (e.imp ? "-import" : "");
        f.desc = "referenced " + e.name + " in " + g.files[static_cast<size_t>(t.first)].path() + " renamed away";
        out.push_back(f);
    }
    // back edges closing an entity-level cycle of length 1..4
    for (int fi = 0; fi < n; ++fi) {
        const auto &es = g.files[static_cast<size_t>(fi)].ents;
        for (int ei = 0; ei < static_cast<int>(es.size()); ++ei) {
            if (es[static_cast<size_t>(ei)].imp) {
                continue;
            }
            std::vector<std::pair<int, int>> level = {{fi, ei}};
            for (int k = 1; k <= 4 && !level.empty(); ++k) {
                for (const auto &a : level) {
                    Fault f;
                    f.type = Fault::CYCLE;
                    f.file = fi;
                    f.ent = ei;
                    f.k = k;
                    f.af = a.first;
                    f.ae = a.second;
                    f.cls = "cycle" + std::to_string(k) + ":" + (es[static_cast<size_t>(ei)].isComp ? "component" : "units");
                    f.desc = es[static_cast<size_t>(ei)].name + " in " + g.files[static_cast<size_t>(fi)].path() + " turned into an import of "
                             + g.files[static_cast<size_t>(a.first)].ents[static_cast<size_t>(a.second)].name + " from " + g.files[static_cast<size_t>(a.first)].path()
                             + " (cycle length " + std::to_string(k) + ")";
                    out.push_back(f);
                }
                std::set<std::pair<int, int>> next;
                for (const auto &a : level) {
                    for (const auto &p : preds(g, a.first, a.second)) {
                        next.insert(p);
                    }
                }
                level.assign(next.begin(), next.end());
            }
        }
    }
    // cyclic plain (non-imported) units inside an imported model
    for (int j = 1; j < n; ++j) {
        const auto &es = g.files[static_cast<size_t>(j)].ents;
        int target = -1;
        for (int ei = 0; ei < static_cast<int>(es.size()) && target < 0; ++ei) {
            if (!es[static_cast<size_t>(ei)].imp && !es[static_cast<size_t>(ei)].isComp) {
                target = ei;
            }
        }
        for (int ei = 0; ei < static_cast<int>(es.size()) && target < 0; ++ei) {
            if (!es[static_cast<size_t>(ei)].imp && es[static_cast<size_t>(ei)].isComp) {
                target = ei;
            }
        }
        if (target < 0) {
            continue;
        }
        for (int k = 1; k <= 2; ++k) {
            for (int ff = 0; ff < 2; ++ff) {
                if (k == 2 && ff != (j & 1)) {
                    continue; // length 2: one call order per file (alternating), length 1: both
                }
                Fault f;
                f.type = Fault::UCYC;
                f.file = j;
                f.ent = target;
                f.k = k;
                f.flattenFirst = ff == 1;
                f.cls = "units-cycle" + std::to_string(k) + (es[static_cast<size_t>(target)].isComp ? ":via-variable" : ":via-units");
                f.desc = "plain units cycle of length " + std::to_string(k) + " at " + es[static_cast<size_t>(target)].name + " in " + g.files[static_cast<size_t>(j)].path() + (ff ? " (flatten first)" : "");
                out.push_back(f);
            }
        }
    }
    return out;
}

struct Scenario
{
    Graph good;
    Graph bad; // IR after the fault (what the reference resolver sees)
    std::vector<int> state; // per file on-disk state
    std::vector<std::string> text; // per file faulty text ("" when missing)
    Fault fault;
};

Scenario applyFault(const Graph &g, const Fault &f)
{
    Scenario sc;
    sc.good = g;
    sc.bad = g;
    sc.fault = f;
    sc.state.assign(g.files.size(), ST_OK);
    auto &bf = sc.bad.files;
    switch (f.type) {
    case Fault::RENAME: {
        auto &es = bf[static_cast<size_t>(f.file)].ents;
        std::string oldName = es[static_cast<size_t>(f.ent)].name;
        std::string newName = oldName + "_gone";
        bool isComp = es[static_cast<size_t>(f.ent)].isComp;
        es[static_cast<size_t>(f.ent)].name = newName;
        if (!isComp) {
            for (auto &e : es) {
                if (!e.imp) {
                    for (auto &u : e.uses) {
                        if (u == oldName) {
                            u = newName;
                        }
                    }
                }
            }
        }
        break;
    }
    case Fault::CYCLE: {
        Ent &t = bf[static_cast<size_t>(f.file)].ents[static_cast<size_t>(f.ent)];
        t.imp = true;
        t.impFile = f.af;
        t.impRef = g.files[static_cast<size_t>(f.af)].ents[static_cast<size_t>(f.ae)].name;
        t.uses.clear();
        break;
    }
    case Fault::UCYC: {
        auto &es = bf[static_cast<size_t>(f.file)].ents;
        std::string base = "ucy" + std::to_string(f.file);
        if (!es[static_cast<size_t>(f.ent)].isComp) {
            if (f.k == 1) {
                es[static_cast<size_t>(f.ent)].uses.push_back(es[static_cast<size_t>(f.ent)].name);
            } else {
                Ent v;
                v.isComp = false;
                v.name = base + "_b";
                v.uses = {es[static_cast<size_t>(f.ent)].name};
                es[static_cast<size_t>(f.ent)].uses.push_back(v.name);
                es.push_back(v);
            }
        } else {
            Ent a;
            a.isComp = false;
            a.name = base + "_a";
            if (f.k == 1) {
                a.uses = {a.name};
                es[static_cast<size_t>(f.ent)].uses.push_back(a.name);
                es.push_back(a);
            } else {
                Ent b;
                b.isComp = false;
                b.name = base + "_b";
                a.uses = {b.name};
                b.uses = {a.name};
                es[static_cast<size_t>(f.ent)].uses.push_back(a.name);
                es.push_back(a);
                es.push_back(b);
            }
        }
        break;
    }
    default:
        break;
    }
    for (size_t i = 0; i < bf.size(); ++i) {
        sc.text.push_back(writeFileText(sc.bad, i, false));
    }
    if (f.file >= 0) {
        size_t j = static_cast<size_t>(f.file);
        switch (f.type) {
        case Fault::MISSING:
            sc.state[j] = ST_MISSING;
            sc.text[j].clear();
            break;
        case Fault::TRUNC:
            sc.state[j] = ST_BADXML;
            sc.text[j] = truncateClass(sc.text[j], f.k);
            break;
        case Fault::NONCELLML:
            sc.state[j] = ST_NONCELLML;
            sc.text[j] = "<?xml version=\"1.0\" encoding=\"UTF-8\"?>\n<html xmlns=\"http://www.w3.org/1999/xhtml\"><head><title>m</title></head><body><p>not a model</p></body></html>\n";
            break;
        case Fault::V11:
            sc.state[j] = ST_V11;
            sc.text[j] = writeFileText(sc.bad, j, true);
            break;
        case Fault::ISDIR:
            sc.state[j] = ST_UNREADABLE;
            sc.text[j].clear();
            break;
        default:
            break;
        }
    }
    return sc;
}

// ------------------------------------------------------------------------------------------------ reference resolver
// Decides, from the IR and the per-file state only, whether every import the root model transitively depends on can be
// satisfied.  Dependencies: an import depends on its target entity; a component (imported or not) brings its encapsulated
// children along; a local component depends on the units of its variables; local units depend on the units they reference.
// An import fails when its file is unusable (missing / not well-formed / not a CellML model / CellML 1.x under a strict
// importer), when the referenced name does not exist with the right kind, or when it is on a cycle of imports.
// Cycles made of local units only are not import failures.
struct Ref
{
    const Graph &g;
    const std::vector<int> &state;
    bool strict;
    std::map<std::pair<int, int>, bool> memo;
    std::vector<std::pair<int, int>> stack;
    std::set<std::pair<int, int>> failing; // entities that cannot be satisfied
    std::set<std::string> failingHrefTargets; // file names of failing imports' targets
    bool cycle = false;
    std::string why; // first failure reason
    // Position of the first import that fails by itself, as the string of dependency links leading to it from a root
    // import: I import->target, C child of a local component, K child of an import component, V units of a variable,
    // U unit reference of local units ("-" = the root import itself).
    std::string failPath;
    std::string curPath;

    Ref(const Graph &gr, const std::vector<int> &st, bool s)
        : g(gr)
        , state(st)
        , strict(s)
    {
    }

    bool usable(int f) const
    {
        int s = state[static_cast<size_t>(f)];
        return s == ST_OK || (s == ST_V11 && !strict);
    }

    void fail(const std::string &r)
    {
        if (why.empty()) {
            why = r;
            failPath = curPath.empty() ? "-" : curPath;
        }
    }

    bool follow(char link, int f, int e)
    {
        curPath.push_back(link);
        bool r = sat(f, e);
        curPath.pop_back();
        return r;
    }

    bool sat(int f, int e)
    {
        std::pair<int, int> key {f, e};
        auto m = memo.find(key);
        if (m != memo.end()) {
            return m->second;
        }
        const Ent &E = g.files[static_cast<size_t>(f)].ents[static_cast<size_t>(e)];
        if (std::find(stack.begin(), stack.end(), key) != stack.end()) {
            if (E.imp) {
                cycle = true;
                fail("import cycle through " + E.name);
                return false;
            }
            return true; // local entity already being examined (plain units cycle): not an import failure
        }
        stack.push_back(key);
        bool ok = true;
        if (E.imp) {
            if (!usable(E.impFile)) {
                ok = false;
                fail("file " + g.files[static_cast<size_t>(E.impFile)].path() + " unusable for import " + E.name);
            } else {
                int t = g.find(E.impFile, E.impRef, E.isComp);
                if (t < 0) {
                    ok = false;
                    fail("import " + E.name + ": no " + (E.isComp ? "component " : "units ") + E.impRef + " in " + g.files[static_cast<size_t>(E.impFile)].path());
                } else {
                    ok = follow('I', E.impFile, t);
                }
            }
        }
        if (ok && E.isComp) {
            const auto &es = g.files[static_cast<size_t>(f)].ents;
            for (size_t c = 0; c < es.size() && ok; ++c) {
                if (es[c].isComp && es[c].parent == e) {
                    ok = follow(E.imp ? 'K' : 'C', f, static_cast<int>(c));
                }
            }
        }
        if (ok && !E.imp) {
            for (const auto &u : E.uses) {
                if (isStandardUnits(u)) {
                    continue;
                }
                int t = g.find(f, u, false);
                if (t < 0) {
                    ok = false;
                    fail("units " + u + " used by " + E.name + " not defined");
                } else if (!follow(E.isComp ? 'V' : 'U', f, t)) {
                    ok = false;
                }
                if (!ok) {
                    break;
                }
            }
        }
        stack.pop_back();
        memo[key] = ok;
        if (!ok) {
            failing.insert(key);
            if (E.imp) {
                failingHrefTargets.insert(g.files[static_cast<size_t>(E.impFile)].fname);
            }
        }
        return ok;
    }

    std::vector<int> failingRoot;
    bool resolveRoot()
    {
        bool all = true;
        const auto &es = g.files[0].ents;
        for (size_t e = 0; e < es.size(); ++e) {
            if (es[e].imp) {
                stack.clear();
                curPath.clear();
                if (!sat(0, static_cast<int>(e))) {
                    all = false;
                    failingRoot.push_back(static_cast<int>(e));
                }
            }
        }
        return all;
    }
};

// ------------------------------------------------------------------------------------------------ family index
struct Family
{
    std::vector<GraphSpec> graphs;
    std::vector<uint64_t> prefix; // prefix[i] = number of (graph,fault) pairs before graph i
    uint64_t pairs = 0;
};

const Family &family()
{
    static Family fam;
    static bool done = false;
    if (!done) {
        done = true;
        for (int n = 1; n <= 3; ++n) {
            GraphSpec cur(static_cast<size_t>(n));
            enumGraphs(n - 1, n, cur, fam.graphs);
        }
        for (const auto &gs : fam.graphs) {
            fam.prefix.push_back(fam.pairs);
            fam.pairs += enumerateFaults(buildFromSpec(gs)).size();
        }
    }
    return fam;
}

// ------------------------------------------------------------------------------------------------ random graphs
Graph randomGraph(Rng &rng)
{
    Graph g;
    int shapeClass = rng.range(0, 4); // 0 chain, 1 diamond, 2 twice-imported, 3 mixed, 4 mixed with sub-directories
    static const char *names[] = {"chain", "diamond", "twice", "mixed", "subdirs"};
    g.origin = std::string("rnd:") + names[shapeClass];
    int n = shapeClass == 0 ? rng.range(3, 6) : shapeClass == 1 ? rng.range(4, 6) : rng.range(2, 6);
    g.files.resize(static_cast<size_t>(n));
    for (int i = 0; i < n; ++i) {
        File &f = g.files[static_cast<size_t>(i)];
        f.fname = "f" + std::to_string(i) + ".cellml";
        f.mname = "m" + std::to_string(i);
        if (shapeClass == 4 && i > 0 && rng.chance(0.6)) {
            f.dir = "sub" + std::to_string(rng.range(1, 2)) + "/";
        }
    }
    auto pickTarget = [&](int from, bool comp, int &tf, int &te) -> bool {
        std::vector<std::pair<int, int>> cand;
        for (int j = from + 1; j < n; ++j) {
            if (shapeClass == 0 && j != from + 1) {
                continue;
            }
            const auto &es = g.files[static_cast<size_t>(j)].ents;
            for (size_t k = 0; k < es.size(); ++k) {
                if (es[k].isComp == comp) {
                    cand.emplace_back(j, static_cast<int>(k));
                }
            }
        }
        if (cand.empty()) {
            return false;
        }
        // prefer the nearest file half of the time (long chains)
        std::pair<int, int> c = rng.pick(cand);
        if (rng.chance(0.5)) {
            for (const auto &x : cand) {
                if (x.first == from + 1) {
                    c = x;
                    break;
                }
            }
        }
        tf = c.first;
        te = c.second;
        return true;
    };
    for (int i = n - 1; i >= 0; --i) {
        File &f = g.files[static_cast<size_t>(i)];
        int count = rng.range(1, 4);
        if (shapeClass == 1 && (i == 0 || i == n - 1)) {
            count = std::max(count, 2);
        }
        for (int s = 0; s < count; ++s) {
            Ent e;
            e.isComp = rng.chance(0.55);
            bool wantImport = i < n - 1 && rng.chance(i == 0 ? 0.8 : 0.55);
            int tf = -1;
            int te = -1;
            if (wantImport && pickTarget(i, e.isComp, tf, te)) {
                e.imp = true;
                e.impFile = tf;
                e.impRef = g.files[static_cast<size_t>(tf)].ents[static_cast<size_t>(te)].name;
            } else if (wantImport && pickTarget(i, !e.isComp, tf, te)) {
                e.isComp = !e.isComp;
                e.imp = true;
                e.impFile = tf;
                e.impRef = g.files[static_cast<size_t>(tf)].ents[static_cast<size_t>(te)].name;
            }
            e.name = slotName(i, s, e.isComp);
            if (!e.imp) {
                // local: use up to two units defined earlier in this file (earlier entries only: no plain cycles) or standard ones
                std::vector<std::string> avail;
                for (const auto &x : f.ents) {
                    if (!x.isComp) {
                        avail.push_back(x.name);
                    }
                }
                int nu = rng.range(e.isComp ? 0 : 1, 2);
                for (int u = 0; u < nu; ++u) {
                    e.uses.push_back(!avail.empty() && rng.chance(0.75) ? rng.pick(avail) : std::string(rng.chance(0.5) ? "second" : "metre"));
                }
            }
            if (e.isComp) {
                // become an encapsulated child of an earlier component of this file
                std::vector<int> parents;
                for (size_t k = 0; k < f.ents.size(); ++k) {
                    if (f.ents[k].isComp) {
                        parents.push_back(static_cast<int>(k));
                    }
                }
                if (!parents.empty() && rng.chance(0.4)) {
                    e.parent = rng.pick(parents);
                }
            }
            f.ents.push_back(e);
            // the same entity imported twice under different names
            if (e.imp && (shapeClass == 2 || rng.chance(0.1)) && static_cast<int>(f.ents.size()) < 5) {
                Ent d = e;
                d.name = e.name + "b";
                d.parent = -1;
                f.ents.push_back(d);
            }
        }
    }
    // every non-root file should be imported from somewhere below it; the root must import something
    for (int j = n - 1; j >= 1; --j) {
        bool referenced = false;
        for (int i = 0; i < j; ++i) {
            for (const auto &e : g.files[static_cast<size_t>(i)].ents) {
                referenced = referenced || (e.imp && e.impFile == j);
            }
        }
        if (!referenced) {
            int from = shapeClass == 0 ? j - 1 : rng.range(0, j - 1);
            const auto &tes = g.files[static_cast<size_t>(j)].ents;
            int te = rng.range(0, static_cast<int>(tes.size()) - 1);
            Ent e;
            e.isComp = tes[static_cast<size_t>(te)].isComp;
            e.imp = true;
            e.impFile = j;
            e.impRef = tes[static_cast<size_t>(te)].name;
            e.name = slotName(from, static_cast<int>(g.files[static_cast<size_t>(from)].ents.size()), e.isComp) + "x";
            g.files[static_cast<size_t>(from)].ents.push_back(e);
        }
    }
    return g;
}

// ------------------------------------------------------------------------------------------------ sacrificial child
// Every scenario is executed in a forked child.  Reason: the recorded defects of this property are unbounded recursions;
// an ASan stack-overflow report names whatever leaf function happened to run out of stack, so the supervisor's generic
// crash key (innermost frames) is not stable for them.  The child reports counters through a pipe; when it dies the
// parent builds the key from the sanitizer kind, the *recursing* libcellml function (most frequent frame) and the
// stage marker (operation + fault class).  Crashes of the parent itself are still handled by the supervisor.
int gRecFd = -1;

void sendRec(const std::string &line)
{
    size_t off = 0;
    while (off < line.size()) {
        ssize_t w = write(gRecFd, line.data() + off, line.size() - off);
        if (w <= 0) {
            if (errno == EINTR) {
                continue;
            }
            break;
        }
        off += static_cast<size_t>(w);
    }
}

void S(const std::string &name, int64_t n = 1)
{
    if (gRecFd >= 0) {
        sendRec("s\t" + name + "\t" + std::to_string(n) + "\n");
    } else {
        stat(name, n);
    }
}

void SEEN(const std::string &name, const std::string &value)
{
    if (gRecFd >= 0) {
        std::string v = value;
        std::replace(v.begin(), v.end(), '\n', ' ');
        std::replace(v.begin(), v.end(), '\t', ' ');
        sendRec("n\t" + name + "\t" + v + "\n");
    } else {
        seen(name, value);
    }
}

void STAGE(const std::string &name)
{
    stage(name);
    if (gRecFd >= 0) {
        sendRec("g\t" + name + "\n");
    }
}

void monLogger(const Logger &lg, const std::string &service, const std::string &replay)
{
    monitorLogger(lg, service, replay); // C15 coherence monitor (violations are emitted directly)
    if (gRecFd >= 0) { // its counters would be lost with the child: forward them
        S("logger_checks");
        S("issues_seen", static_cast<int64_t>(lg.issueCount()));
        for (size_t i = 0; i < lg.issueCount() && i < 50; ++i) {
            auto is = lg.issue(i);
            if (is != nullptr) {
                SEEN("service_rule", service + ":" + std::to_string(static_cast<int>(is->referenceRule())));
            }
        }
    }
}

void monExplained(bool failed, const Logger &lg, const std::string &service, const std::string &replay)
{
    monitorExplained(failed, lg, service, replay);
    if (failed && gRecFd >= 0) {
        S("failing_results");
    }
}

constexpr unsigned kChildSeconds = 100; // wall-clock backstop of one scenario
constexpr rlim_t kChildCpuSeconds = 4; // CPU budget of one scenario (normal: ~15 ms under ASan), independent of machine load

struct ChildResult
{
    bool normal = false;
    std::string lastStage = "?";
    std::string key; // crash/hang key when !normal
    std::string report;
};

std::string crashKind(const std::string &err, int status)
{
    auto grab = [&](const std::string &marker, const std::string &stop) -> std::string {
        size_t p = err.find(marker);
        if (p == std::string::npos) {
            return "";
        }
        p += marker.size();
        size_t e = err.find_first_of(stop, p);
        return err.substr(p, e == std::string::npos ? std::string::npos : e - p);
    };
    std::string k = grab("ERROR: AddressSanitizer: ", " \n");
    if (!k.empty()) {
        return "asan:" + k;
    }
    k = grab("runtime error: ", "\n");
    if (!k.empty()) {
        std::string o;
        for (char c : k) { // drop numbers/addresses
            o += (c >= '0' && c <= '9') ? 'N' : c;
        }
        return "ubsan:" + o.substr(0, 60);
    }
    k = grab("terminate called after throwing an instance of '", "'");
    if (!k.empty()) {
        return "uncaught:" + k;
    }
    if (WIFSIGNALED(status)) {
        return std::string("signal:") + std::to_string(WTERMSIG(status));
    }
    return "exit:" + std::to_string(WIFEXITED(status) ? WEXITSTATUS(status) : -1);
}

// the libcellml function a crash is attributed to: for stack exhaustion the most frequent frame (the recursion), otherwise the innermost
std::string crashFrame(const std::string &err, bool recursion)
{
    std::map<std::string, int> freq;
    std::vector<std::string> order;
    size_t pos = 0;
    while (pos < err.size()) {
        size_t e = err.find('\n', pos);
        std::string line = err.substr(pos, e == std::string::npos ? std::string::npos : e - pos);
        pos = e == std::string::npos ? err.size() : e + 1;
        size_t h = line.find("    #");
        size_t in = line.find(" in libcellml::");
        if (h != 0 || in == std::string::npos) {
            continue;
        }
        size_t b = in + 4;
        size_t q = b;
        while (q < line.size() && (isalnum(static_cast<unsigned char>(line[q])) || line[q] == '_' || line[q] == ':' || line[q] == '~')) {
            ++q;
        }
        std::string fn = line.substr(b, q - b);
        if (!freq.count(fn)) {
            order.push_back(fn);
        }
        ++freq[fn];
    }
    if (order.empty()) {
        return "?";
    }
    if (!recursion) {
        return order.front();
    }
    std::string best = order.front();
    for (const auto &fn : order) {
        if (freq[fn] > freq[best]) {
            best = fn;
        }
    }
    return best;
}

ChildResult runIsolated(const std::function<void()> &body)
{
    ChildResult res;
    if (getenv("C07_NO_FORK") != nullptr) {
        body();
        res.normal = true;
        return res;
    }
#if defined(__SANITIZE_ADDRESS__)
    // Load the symbolizer's debug information once in the parent so that a dying child does not pay for it again.
    static bool warmed = false;
    if (!warmed) {
        warmed = true;
        char tmp[512];
        __sanitizer_symbolize_pc(__builtin_return_address(0), "%f %s:%l", tmp, sizeof tmp);
    }
#endif
    int rp[2];
    int ep[2];
    if (pipe(rp) != 0 || pipe(ep) != 0) {
        res.key = "harness:pipe-failed";
        return res;
    }
    fflush(nullptr);
    pid_t pid = fork();
    if (pid < 0) {
        res.key = "harness:fork-failed";
        return res;
    }
    if (pid == 0) {
        close(rp[0]);
        close(ep[0]);
        gRecFd = rp[1];
        dup2(ep[1], 2);
        dup2(ep[1], 1);
        struct rlimit rl; // (the stack limit is deliberately left at the inherited default)
        alarm(kChildSeconds);
        rl.rlim_cur = kChildCpuSeconds; // work bound: a scenario needs ~15 ms of CPU
        rl.rlim_max = kChildCpuSeconds + 2;
        setrlimit(RLIMIT_CPU, &rl);
        body();
        fflush(nullptr);
        _exit(0);
    }
    close(rp[1]);
    close(ep[1]);
    std::string rec;
    std::string err;
    struct pollfd fds[2] = {{rp[0], POLLIN, 0}, {ep[0], POLLIN, 0}};
    int open = 2;
    char buf[65536];
    while (open > 0) {
        int r = poll(fds, 2, -1);
        if (r < 0) {
            if (errno == EINTR) {
                continue;
            }
            break;
        }
        for (int i = 0; i < 2; ++i) {
            if (fds[i].fd >= 0 && (fds[i].revents & (POLLIN | POLLHUP | POLLERR)) != 0) {
                ssize_t n = read(fds[i].fd, buf, sizeof buf);
                if (n > 0) {
                    std::string &dst = i == 0 ? rec : err;
                    if (dst.size() < (8u << 20)) {
                        dst.append(buf, static_cast<size_t>(n));
                    }
                } else if (n == 0 || errno != EINTR) {
                    close(fds[i].fd);
                    fds[i].fd = -1;
                    --open;
                }
            }
        }
    }
    int status = 0;
    struct rusage ru;
    memset(&ru, 0, sizeof ru);
    while (wait4(pid, &status, 0, &ru) < 0 && errno == EINTR) {
    }
    {
        // how close do scenarios come to the CPU budget?  (evidence: distinct buckets seen, counters per bucket)
        double cpu = static_cast<double>(ru.ru_utime.tv_sec + ru.ru_stime.tv_sec) + static_cast<double>(ru.ru_utime.tv_usec + ru.ru_stime.tv_usec) / 1e6;
        const char *bucket = cpu < 0.25 ? "<0.25s" : cpu < 0.5 ? "<0.5s" : cpu < 1.0 ? "<1s" : cpu < 2.0 ? "<2s" : cpu < 3.0 ? "<3s" : ">=3s";
        stat(std::string("child_cpu:") + bucket);
    }
    // replay the child's records
    size_t pos = 0;
    while (pos < rec.size()) {
        size_t e = rec.find('\n', pos);
        if (e == std::string::npos) {
            break; // incomplete last record of a dying child
        }
        std::string line = rec.substr(pos, e - pos);
        pos = e + 1;
        size_t t1 = line.find('\t');
        if (t1 == std::string::npos) {
            continue;
        }
        size_t t2 = line.find('\t', t1 + 1);
        std::string a = line.substr(t1 + 1, t2 == std::string::npos ? std::string::npos : t2 - t1 - 1);
        std::string b = t2 == std::string::npos ? "" : line.substr(t2 + 1);
        if (line[0] == 's') {
            stat(a, strtoll(b.c_str(), nullptr, 10));
        } else if (line[0] == 'n') {
            seen(a, b);
        } else if (line[0] == 'g') {
            res.lastStage = a;
        }
    }
    if (WIFEXITED(status) && WEXITSTATUS(status) == 0) {
        res.normal = true;
        return res;
    }
    if (WIFSIGNALED(status) && (WTERMSIG(status) == SIGALRM || WTERMSIG(status) == SIGXCPU || WTERMSIG(status) == SIGKILL)) {
        res.key = "hang:" + res.lastStage;
        res.report = "the scenario did not finish within " + std::to_string(kChildCpuSeconds) + " s of CPU time / " + std::to_string(kChildSeconds)
                     + " s wall clock (normal: ~15 ms); last stage " + res.lastStage;
        return res;
    }
    std::string kind = crashKind(err, status);
    bool overflow = kind == "asan:stack-overflow";
    std::string frame = crashFrame(err, overflow);
    // Stack exhaustion: the report is cut wherever the stack happened to end, so the frame goes to the detail only;
    // the stage (operation, fault class, position of the failing import) identifies the situation.
    res.key = "crash:" + kind + (overflow ? "" : "@" + frame) + ":" + res.lastStage;
    // head of the report without the (hundreds of) repeated frames
    std::string head;
    int lines = 0;
    std::string prev;
    size_t p2 = 0;
    while (p2 < err.size() && lines < 40) {
        size_t e = err.find('\n', p2);
        std::string line = err.substr(p2, e == std::string::npos ? std::string::npos : e - p2);
        p2 = e == std::string::npos ? err.size() : e + 1;
        size_t in = line.find(" in ");
        std::string sig = in == std::string::npos ? line : line.substr(in, 80);
        if (sig == prev) {
            continue;
        }
        prev = sig;
        head += line.substr(0, 300) + "\n";
        ++lines;
    }
    res.report = "child ended abnormally (status " + std::to_string(status) + ") at stage " + res.lastStage + (overflow ? "; recursing function: " + frame : "") + "\n" + head;
    return res;
}

// ------------------------------------------------------------------------------------------------ helpers
bool writeScenarioFiles(const std::string &dir, const Graph &g, const std::vector<std::string> &text, const std::vector<int> &state)
{
    bool ok = true;
    for (size_t i = 0; i < g.files.size(); ++i) {
        std::string p = dir + "/" + g.files[i].path();
        if (!g.files[i].dir.empty()) {
            fs::create_directories(dir + "/" + g.files[i].dir);
        }
        std::error_code ec;
        if (state[i] == ST_MISSING) {
            fs::remove_all(p, ec);
            continue;
        }
        if (state[i] == ST_UNREADABLE) {
            fs::remove_all(p, ec);
            ok = fs::create_directory(p, ec) && ok;
            continue;
        }
        if (fs::is_directory(p, ec)) {
            fs::remove_all(p, ec);
        }
        ok = writeFile(p, text[i]) && ok;
    }
    return ok;
}

std::string replayText(const Scenario &sc, bool strict, const std::string &baseArg)
{
    std::string r = "fault: " + sc.fault.desc + " [" + sc.fault.cls + "]\nimporter: " + (strict ? "strict" : "permissive") + "\nshape: " + sc.good.shape() + "\nbasePath suffix: " + baseArg + "\n";
    for (size_t i = 0; i < sc.bad.files.size(); ++i) {
        r += "==== " + sc.bad.files[i].path() + (i == 0 ? " (root)" : "") + (sc.state[i] == ST_MISSING ? " -- MISSING" : sc.state[i] == ST_UNREADABLE ? " -- A DIRECTORY" : "") + "\n";
        if (sc.state[i] != ST_MISSING && sc.state[i] != ST_UNREADABLE) {
            r += sc.text[i];
            if (r.empty() || r.back() != '\n') {
                r += "\n";
            }
        }
        if (sc.state[i] != ST_OK || sc.text[i] != writeFileText(sc.good, i, false)) {
            r += "---- repaired " + sc.good.files[i].path() + "\n" + writeFileText(sc.good, i, false);
        }
    }
    return r;
}

// where does an issue point?  returns (file, ent) of the named component/units in the IR, or {-1,-1}
std::pair<int, int> locate(const Graph &g, const std::string &name, bool isComp)
{
    for (size_t f = 0; f < g.files.size(); ++f) {
        int e = g.find(static_cast<int>(f), name, isComp);
        if (e >= 0) {
            return {static_cast<int>(f), e};
        }
    }
    return {-1, -1};
}

// Walks the libcellml objects alongside the IR (in the order of the reference resolver) and reports the link path of
// the first import the root depends on whose ImportSource has no model attached ("all-linked" when there is none).
// Purely observational: it makes the keys of "resolved but not really" violations say *which* import was skipped.
struct LinkWalk
{
    const Graph &g;
    std::set<std::pair<int, int>> visited;
    std::string path;
    std::string found;
    bool has = false;

    explicit LinkWalk(const Graph &gr)
        : g(gr)
    {
    }

    void hit(const std::string &suffix)
    {
        if (!has) {
            has = true;
            found = (path.empty() ? "-" : path) + suffix;
        }
    }

    void step(char link, int f, int e, const ModelPtr &owner)
    {
        path.push_back(link);
        walk(f, e, owner);
        path.pop_back();
    }

    void walk(int f, int e, const ModelPtr &owner)
    {
        if (has || owner == nullptr || !visited.insert({f, e}).second) {
            return;
        }
        const Ent &E = g.files[static_cast<size_t>(f)].ents[static_cast<size_t>(e)];
        ImportSourcePtr src;
        if (E.isComp) {
            auto c = owner->component(E.name, true);
            if (c == nullptr) {
                hit("(object-not-found)");
                return;
            }
            src = c->isImport() ? c->importSource() : nullptr;
        } else {
            auto u = owner->units(E.name);
            if (u == nullptr) {
                hit("(object-not-found)");
                return;
            }
            src = u->isImport() ? u->importSource() : nullptr;
        }
        if (E.imp) {
            if (src == nullptr || !src->hasModel()) {
                hit("");
                return;
            }
            int t = g.find(E.impFile, E.impRef, E.isComp);
            if (t >= 0) {
                step('I', E.impFile, t, src->model());
            }
        }
        const auto &es = g.files[static_cast<size_t>(f)].ents;
        if (E.isComp) {
            for (size_t c = 0; c < es.size(); ++c) {
                if (es[c].isComp && es[c].parent == e) {
                    step(E.imp ? 'K' : 'C', f, static_cast<int>(c), owner);
                }
            }
        }
        if (!E.imp) {
            for (const auto &u : E.uses) {
                int t = g.find(f, u, false);
                if (t >= 0) {
                    step(E.isComp ? 'V' : 'U', f, t, owner);
                }
            }
        }
    }

    std::string run(const ModelPtr &root)
    {
        const auto &es = g.files[0].ents;
        for (size_t e = 0; e < es.size() && !has; ++e) {
            if (es[e].imp) {
                path.clear();
                walk(0, static_cast<int>(e), root);
            }
        }
        if (has) {
            return found;
        }
        // every import is linked to a model: name the first top-level entity that nevertheless tests as unresolved
        for (size_t i = 0; i < root->unitsCount(); ++i) {
            if (!root->units(i)->isResolved()) {
                return std::string("all-linked/") + (root->units(i)->isImport() ? "imported-units" : "local-units-over-imports");
            }
        }
        for (size_t i = 0; i < root->componentCount(); ++i) {
            if (!root->component(i)->isResolved()) {
                return std::string("all-linked/") + (root->component(i)->isImport() ? "imported-component" : "local-component");
            }
        }
        return "all-linked";
    }
};

ModelPtr parseRoot(const std::string &dir, const Graph &g, const std::string &what, const std::string &replay)
{
    bool ok = false;
    std::string text = readFile(dir + "/" + g.files[0].path(), &ok);
    auto parser = Parser::create(true);
    auto m = parser->parseModel(text);
    if (!ok || m == nullptr || parser->issueCount() != 0) {
        viol("C07", "harness:root-rejected:" + what, "the generated root model must parse strictly without issues:\n" + issueSummary(*parser), replay);
        return nullptr;
    }
    return m;
}

// Does the root depend on an import entity that is reached through at least one non-import link (child, variable
// units, unit reference)?  Pure structure of the IR; failures are ignored.
bool hasOffChainImport(const Graph &g)
{
    std::set<std::tuple<int, int, bool>> visited;
    std::vector<std::tuple<int, int, bool>> todo;
    const auto &root = g.files[0].ents;
    for (size_t e = 0; e < root.size(); ++e) {
        if (root[e].imp) {
            todo.emplace_back(0, static_cast<int>(e), false);
        }
    }
    while (!todo.empty()) {
        auto cur = todo.back();
        todo.pop_back();
        if (!visited.insert(cur).second) {
            continue;
        }
        int f = std::get<0>(cur);
        int e = std::get<1>(cur);
        bool off = std::get<2>(cur);
        const auto &es = g.files[static_cast<size_t>(f)].ents;
        const Ent &E = es[static_cast<size_t>(e)];
        if (E.imp) {
            if (off) {
                return true;
            }
            if (E.impFile >= 0 && E.impFile < static_cast<int>(g.files.size())) {
                int t = g.find(E.impFile, E.impRef, E.isComp);
                if (t >= 0) {
                    todo.emplace_back(E.impFile, t, off);
                }
            }
        }
        if (E.isComp) {
            for (size_t c = 0; c < es.size(); ++c) {
                if (es[c].isComp && es[c].parent == e) {
                    todo.emplace_back(f, static_cast<int>(c), true);
                }
            }
        }
        if (!E.imp) {
            for (const auto &u : E.uses) {
                int t = g.find(f, u, false);
                if (t >= 0) {
                    todo.emplace_back(f, t, true);
                }
            }
        }
    }
    return false;
}

// ------------------------------------------------------------------------------------------------ one scenario
void scenarioBody(const Scenario &sc, bool strict, const std::string &dir, const std::string &base, const std::string &replay)
{
    const std::string mode = strict ? "strict" : "permissive";
    std::string shape = sc.good.shape();
    bool subdirs = false;
    for (const auto &f : sc.good.files) {
        subdirs = subdirs || !f.dir.empty();
    }
    // fault class used in keys: files spread over sub-directories are a class of their own (relative hrefs with "..")
    const std::string cls = sc.fault.cls + (subdirs ? "+subdirs" : "");
    S("scenarios");
    S("scenarios:" + cls);
    S(strict ? "mode_strict" : "mode_permissive");
    SEEN("fault_class", cls);
    SEEN("graph_shape", shape);
    SEEN("origin", sc.good.origin);
    S("files_total", static_cast<int64_t>(sc.good.files.size()));
    S("import_edges_total", static_cast<int64_t>(sc.good.importEdges()));

    if (!writeScenarioFiles(dir, sc.bad, sc.text, sc.state)) {
        viol("C07", "harness:cannot-write-files", dir, replay);
        return;
    }

    // ---- reference verdict
    Ref ref(sc.bad, sc.state, strict);
    bool expected = ref.resolveRoot();
    S(expected ? "expected_true" : "expected_false");
    if (ref.cycle) {
        S("reference_saw_import_cycle");
    }
    {
        // sanity of the generator: the unfaulted graph must be resolvable
        std::vector<int> allOk(sc.good.files.size(), ST_OK);
        Ref r0(sc.good, allOk, strict);
        if (!r0.resolveRoot()) {
            viol("C07", "harness:base-graph-unresolvable", r0.why, replay);
            return;
        }
    }
    bool plainUnitsCycle = sc.fault.type == Fault::UCYC;
    // where the (first) unsatisfiable import sits, seen from the root
    const std::string where = expected ? "ok" : ref.failPath;
    const std::string tagged = cls + "@" + where;
    SEEN("failing_import_position", where);

    // ---- run the library
    ModelPtr model = parseRoot(dir, sc.bad, "faulty", replay);
    if (model == nullptr) {
        return;
    }
    auto importer = Importer::create(strict);
    STAGE("resolveImports:" + tagged);
    bool got = importer->resolveImports(model, base);
    monLogger(*importer, "Importer::resolveImports", replay);
    monExplained(!got, *importer, "Importer::resolveImports", replay);
    S(got ? "got_true" : "got_false");
    std::string resolveIssues = issueSummary(*importer, 12);
    if (got != expected) {
        S("verdict_disagree");
        std::string pos = where;
        if (expected) { // refused although satisfiable: say what it complained about
            pos = "ok";
            for (size_t i = 0; i < importer->issueCount(); ++i) {
                auto is = importer->issue(i);
                if (is->level() == Issue::Level::ERROR) {
                    pos = "ok/" + ruleName(is->referenceRule());
                    break;
                }
            }
        }
        viol("C07", std::string("resolve-verdict:") + (expected ? "true" : "false") + "-got-" + (got ? "true" : "false") + ":" + cls + "@" + pos + ":" + mode,
             std::string("reference resolver: ") + (expected ? "every transitive import of the root can be satisfied" : "unsatisfiable: " + ref.why + " (position " + ref.failPath + ")")
                 + "\nresolveImports returned " + (got ? "true" : "false") + "; importer issues:\n" + resolveIssues,
             replay);
    } else {
        S("verdict_agree");
        S(std::string("verdict_agree:") + (expected ? "true" : "false"));
    }

    auto flattenAndCheck = [&](const ModelPtr &mdl, const Graph &graph, bool afterTrue, bool judge, const std::string &tag) {
        STAGE(std::string("flatten-after-") + (afterTrue ? "true:" : "false:") + tag);
        auto flat = importer->flattenModel(mdl);
        monLogger(*importer, "Importer::flattenModel", replay);
        monExplained(flat == nullptr, *importer, "Importer::flattenModel", replay);
        S(flat != nullptr ? "flatten_nonnull" : "flatten_null");
        if (!judge) {
            S(flat != nullptr ? "flatten_unjudged_nonnull" : "flatten_unjudged_null");
            if (flat != nullptr) {
                STAGE("flat->hasImports:" + tag);
                S(flat->hasImports() ? "flatten_unjudged_has_imports" : "flatten_unjudged_import_free");
            }
            return;
        }
        if (afterTrue) {
            if (flat == nullptr) {
                viol("C07", "flatten-null-after-success:" + tag.substr(0, tag.find('@')) + "@" + LinkWalk(graph).run(mdl),
                     "resolveImports returned true (as the reference resolver expects) but flattenModel returned null:\n" + issueSummary(*importer), replay);
            } else {
                STAGE("flat->hasImports:" + tag);
                if (flat->hasImports()) {
                    viol("C07", "flatten-result-has-imports:" + tag, "flattenModel returned a model that still has imports", replay);
                } else {
                    S("flatten_ok");
                }
            }
        } else {
            if (flat != nullptr) {
                viol("C07", "flatten-nonnull-unresolvable:" + tag, "imports are unsatisfiable (" + ref.why + ") but flattenModel returned a model", replay);
            } else if (importer->issueCount() == 0) {
                viol("C07", "flatten-null-no-issue:" + tag, "flattenModel returned null without any issue", replay);
            } else {
                S("flatten_refused_with_issue");
            }
        }
    };

    if (got) {
        if (sc.fault.flattenFirst) {
            flattenAndCheck(model, sc.bad, true, expected && !plainUnitsCycle, tagged);
        }
        STAGE("hasUnresolvedImports:" + tagged);
        bool unresolved = model->hasUnresolvedImports();
        if (unresolved) {
            if (expected) {
                viol("C07", "unresolved-after-success:" + cls + "@" + LinkWalk(sc.bad).run(model),
                     "resolveImports returned true yet Model::hasUnresolvedImports() is true", replay);
            } else {
                S("unresolved_after_wrong_success");
            }
        } else {
            S("resolved_after_success");
        }
        if (!sc.fault.flattenFirst) {
            // with a plain units cycle the statement only promises termination of flattenModel
            flattenAndCheck(model, sc.bad, true, expected && !plainUnitsCycle, tagged);
        }
    } else {
        // at least one issue attached to the failing import
        size_t n = importer->issueCount();
        if (n == 0) {
            viol("C07", "no-issue-on-failure:" + tagged, "resolveImports returned false with an empty issue list", replay);
        } else if (!expected) {
            bool attached = false;
            bool related = false;
            std::set<int> rootWithIssue;
            for (size_t i = 0; i < n; ++i) {
                auto is = importer->issue(i);
                auto item = is->item();
                if (item == nullptr) {
                    continue;
                }
                auto t = item->type();
                SEEN("resolve_issue_item", cellmlElementTypeAsString(t) + "/" + levelName(is->level()) + "/" + ruleName(is->referenceRule()));
                if (t == CellmlElementType::COMPONENT || t == CellmlElementType::UNITS) {
                    bool isComp = t == CellmlElementType::COMPONENT;
                    std::string nm = isComp ? (item->component() ? item->component()->name() : "") : (item->units() ? item->units()->name() : "");
                    auto loc = locate(sc.bad, nm, isComp);
                    if (loc.first >= 0 && ref.failing.count(loc)) {
                        const Ent &E = sc.bad.files[static_cast<size_t>(loc.first)].ents[static_cast<size_t>(loc.second)];
                        if (E.imp) {
                            attached = true;
                            if (loc.first == 0) {
                                rootWithIssue.insert(loc.second);
                            }
                        } else {
                            related = true;
                        }
                    }
                } else if (t == CellmlElementType::IMPORT && item->importSource() != nullptr) {
                    std::string url = item->importSource()->url();
                    size_t sl = url.find_last_of('/');
                    std::string bn = sl == std::string::npos ? url : url.substr(sl + 1);
                    if (ref.failingHrefTargets.count(bn)) {
                        attached = true;
                    }
                }
            }
            if (attached) {
                S("failure_issue_attached");
                if (rootWithIssue.size() < ref.failingRoot.size()) {
                    S("failing_root_imports_without_own_issue", static_cast<int64_t>(ref.failingRoot.size() - rootWithIssue.size()));
                }
            } else if (related) {
                S("unsure:issue-on-related-object");
                SEEN("unsure", "issue-on-related-object:" + cls);
            } else {
                viol("C07", "issue-not-on-failing-import:" + tagged,
                     "no importer issue is attached to an import on a failing chain (" + ref.why + "); issues:\n" + resolveIssues, replay);
            }
        }
        flattenAndCheck(model, sc.bad, false, !expected, tagged);
    }

    // ---- recovery
    if (sc.fault.type == Fault::NONE) {
        return;
    }
    std::vector<int> allOk(sc.good.files.size(), ST_OK);
    std::vector<std::string> goodText;
    for (size_t i = 0; i < sc.good.files.size(); ++i) {
        goodText.push_back(writeFileText(sc.good, i, false));
    }
    if (!writeScenarioFiles(dir, sc.good, goodText, allOk)) {
        viol("C07", "harness:cannot-write-files", dir, replay);
        return;
    }
    // observed, not judged: retry on the same importer without clearing its library
    {
        ModelPtr m2 = parseRoot(dir, sc.good, "repaired", replay);
        if (m2 == nullptr) {
            return;
        }
        STAGE("retry-without-clear:" + tagged);
        bool r = importer->resolveImports(m2, base);
        monLogger(*importer, "Importer::resolveImports", replay);
        monExplained(!r, *importer, "Importer::resolveImports", replay);
        S(std::string("retry_noclear_") + (r ? "ok" : "fail") + ":" + (got ? "after-success:" : "after-failure:") + sc.fault.cls);
        S(std::string("retry_noclear_") + (r ? "ok" : "fail"));
    }
    S("recoveries_attempted");
    STAGE("removeAllModels:" + tagged);
    importer->removeAllModels();
    if (importer->libraryCount() != 0) {
        viol("C07", "library-not-empty-after-removeAllModels", std::to_string(importer->libraryCount()), replay);
    }
    ModelPtr m3 = parseRoot(dir, sc.good, "repaired", replay);
    if (m3 == nullptr) {
        return;
    }
    STAGE("resolve-after-repair:" + tagged);
    bool r3 = importer->resolveImports(m3, base);
    monLogger(*importer, "Importer::resolveImports", replay);
    monExplained(!r3, *importer, "Importer::resolveImports", replay);
    std::string r3issues = issueSummary(*importer);
    STAGE("hasUnresolvedImports-after-repair:" + tagged);
    bool u3 = r3 && m3->hasUnresolvedImports();
    if (r3 && !u3) {
        S("recoveries_succeeded");
        return;
    }
    // Differential: does a brand-new importer cope with the repaired file set?  If it does not either, the trouble is
    // the unfaulted graph itself (reported under fault class "none"), not a failure to recover.
    auto fresh = Importer::create(strict);
    ModelPtr m4 = parseRoot(dir, sc.good, "repaired", replay);
    if (m4 == nullptr) {
        return;
    }
    STAGE("fresh-importer-on-repaired:" + tagged);
    bool r4 = fresh->resolveImports(m4, base);
    monLogger(*fresh, "Importer::resolveImports", replay);
    bool u4 = r4 && m4->hasUnresolvedImports();
    const std::string noneCls = std::string("none") + (subdirs ? "+subdirs" : "");
    if (r4 && !u4) {
        viol("C07", "no-recovery:" + tagged,
             std::string("after repairing the file set and Importer::removeAllModels() a fresh resolveImports on the same importer ")
                 + (r3 ? "returns true but leaves unresolved imports" : "still fails") + " whereas a new importer succeeds:\n" + r3issues,
             replay);
    } else if (!r4) {
        S("recovery_blocked_by_base_defect");
        std::string pos = "ok";
        for (size_t i = 0; i < fresh->issueCount(); ++i) {
            if (fresh->issue(i)->level() == Issue::Level::ERROR) {
                pos = "ok/" + ruleName(fresh->issue(i)->referenceRule());
                break;
            }
        }
        viol("C07", "resolve-verdict:true-got-false:" + noneCls + "@" + pos + ":" + mode,
             "repaired (fault-free) file set: resolveImports of a new importer returns false:\n" + issueSummary(*fresh), replay);
    } else {
        S("recovery_blocked_by_base_defect");
        viol("C07", "unresolved-after-success:" + noneCls + "@" + LinkWalk(sc.good).run(m4),
             "repaired (fault-free) file set: resolveImports of a new importer returns true yet Model::hasUnresolvedImports() is true", replay);
    }
}

void runScenario(Ctx &ctx, const Scenario &sc, bool strict)
{
    const std::string &cls = sc.fault.cls;
    const std::string mode = strict ? "strict" : "permissive";
    std::string dir = scratchDir() + "/c" + std::to_string(ctx.index);
    std::error_code ec;
    fs::remove_all(dir, ec);
    fs::create_directories(dir);
    struct Cleanup
    {
        std::string d;
        ~Cleanup()
        {
            std::error_code e;
            fs::remove_all(d, e);
        }
    } cleanup {dir};

    // the base path is passed with or without a trailing separator (both are documented to work)
    bool slash = ((fnv1a(sc.good.shape() + cls) >> 7) & 1) != 0;
    std::string base = dir + (slash ? "/" : "");
    std::string replay = replayText(sc, strict, slash ? "/" : "(none)");
    std::string shape = sc.good.shape();
    if (verbose()) {
        fprintf(stderr, "---- scenario of case %lld ----\n%s---- end of scenario ----\n", static_cast<long long>(ctx.index), replay.c_str());
    }
    bool nontrivial = sc.good.files.size() >= 2 && sc.good.importEdges() >= 1;
    caseInfo(hex64(fnv1a(shape + "|" + cls + "|" + sc.fault.desc + "|" + mode)), nontrivial,
             sc.good.origin + " " + shape + " | fault: " + sc.fault.desc + " | " + mode);
    // Every scenario runs in a forked child (cost: a fork of an ASan process, ~10 ms) so that crashes and non-termination
    // are keyed by operation, fault class and position of the failing import.  Whether the root depends on an import
    // that is not on a pure import chain (hasOffChainImport) is recorded as evidence.
    stat(hasOffChainImport(sc.bad) ? "scenarios_with_off_chain_import" : "scenarios_pure_chains_only");
    stat("scenarios_isolated");
    ChildResult r = runIsolated([&]() { scenarioBody(sc, strict, dir, base, replay); });
    if (r.normal) {
        stat("scenarios_completed");
    } else {
        stat("scenarios_ended_abnormally");
        seen("abnormal_end", r.key);
        viol("C07", r.key, r.report, replay);
    }
}

uint64_t gcd64(uint64_t a, uint64_t b)
{
    while (b != 0) {
        uint64_t t = a % b;
        a = b;
        b = t;
    }
    return a;
}

constexpr int64_t kQuickFamily = 6500;
constexpr int64_t kQuickRandom = 3500;
constexpr int64_t kThoroughRandom = 30000;

} // namespace

int64_t vh_case_count(const std::string &tier, uint64_t)
{
    if (tier == "thorough") {
        return static_cast<int64_t>(family().pairs * 2) + kThoroughRandom;
    }
    return kQuickFamily + kQuickRandom;
}

void vh_run_case(Ctx &ctx)
{
    const Family &fam = family();
    uint64_t famTotal = fam.pairs * 2;
    int64_t famCases = ctx.thorough() ? static_cast<int64_t>(famTotal) : kQuickFamily;
    if (ctx.index < famCases) {
        uint64_t idx = static_cast<uint64_t>(ctx.index);
        if (!ctx.thorough()) {
            // seed-chosen subset: an affine bijection of Z/famTotal, parameters drawn from the seed
            Rng sr(ctx.seed, 0xC07);
            uint64_t a = (sr.next() % famTotal) | 1;
            while (gcd64(a, famTotal) != 1) {
                a += 2;
            }
            uint64_t b = sr.next() % famTotal;
            idx = static_cast<uint64_t>((static_cast<unsigned __int128>(a) * idx + b) % famTotal);
        }
        bool strict = (idx & 1) == 0;
        uint64_t pair = idx >> 1;
        size_t gi = static_cast<size_t>(std::upper_bound(fam.prefix.begin(), fam.prefix.end(), pair) - fam.prefix.begin()) - 1;
        Graph g = buildFromSpec(fam.graphs[gi]);
        auto faults = enumerateFaults(g);
        const Fault &f = faults[static_cast<size_t>(pair - fam.prefix[gi])];
        stat("family_scenarios");
        seen("family_size", "graphs=" + std::to_string(fam.graphs.size()) + " graph-fault-pairs=" + std::to_string(fam.pairs) + " scenarios=" + std::to_string(famTotal));
        runScenario(ctx, applyFault(g, f), strict);
        return;
    }
    // random graph, one fault drawn by class first (so that rare classes are not swamped), random mode
    Rng &rng = ctx.rng;
    Graph g = randomGraph(rng);
    auto faults = enumerateFaults(g);
    std::map<std::string, std::vector<size_t>> byClass;
    for (size_t i = 0; i < faults.size(); ++i) {
        std::string c = faults[i].cls.substr(0, faults[i].cls.find(':'));
        byClass[c].push_back(i);
    }
    std::vector<std::string> classes;
    for (const auto &kv : byClass) {
        classes.push_back(kv.first);
    }
    const auto &pool = byClass[rng.pick(classes)];
    const Fault &f = faults[rng.pick(pool)];
    bool strict = rng.chance(0.5);
    stat("random_scenarios");
    runScenario(ctx, applyFault(g, f), strict);
}
