// C12: operations are pure - no hidden state, no mutation of their input, issue lists start empty.
// Oracle: every operation performed at some point of a random call history (on reused or fresh service instances, after
// arbitrary other calls) is compared with the SAME operation on the SAME input performed as the first libCellML work of a
// fresh process (`--aux`); models handed to services are dumped before and after; libxml2's process-wide parser
// defaults are compared with their values at process start after every operation.
#include "gen.h"
#include "mutate.h"
#include "vh.h"

#include <algorithm>
#include <cstdlib>
#include <sys/stat.h>
#include <unistd.h>

using namespace vh;

int64_t vh_case_count(const std::string &tier, uint64_t)
{
    return tier == "thorough" ? 6000 : 320;
}

static std::vector<std::string> gCorpus;
static const std::vector<std::string> &corpus()
{
    if (gCorpus.empty()) {
        const char *repo = getenv("VERIF_REPO");
        std::string root = std::string(repo != nullptr ? repo : "/repo") + "/tests/resources";
        for (const auto &f : listFiles(root, true)) {
            size_t n = f.size();
            struct stat st;
            if (((n > 7 && f.substr(n - 7) == ".cellml") || (n > 4 && f.substr(n - 4) == ".xml")) && stat(f.c_str(), &st) == 0 && st.st_size < 20000
                && f.find("/generator/") == std::string::npos) {
                gCorpus.push_back(f);
            }
        }
    }
    return gCorpus;
}

struct Input
{
    std::string text;
    std::string baseDir;
    std::string label;
};

static const int kPool = 6;

// the pool of a case is a pure function of (seed, case index)
static std::vector<Input> makePool(uint64_t seed, int64_t index)
{
    std::vector<Input> pool;
    Rng rng(seed ^ 0x5151, static_cast<uint64_t>(index));
    const auto &c = corpus();
    for (int i = 0; i < kPool; ++i) {
        Input in;
        if (i < 2) {
            GenOptions go;
            go.imports = false;
            go.mathProbability = 0.8;
            auto ir = generateModel(rng, go);
            if (i == 1 && rng.chance(0.5)) {
                // a CellML 1.0/1.1 rendering: a parser instance that has read it must read 2.0 documents as before
                std::string version = rng.chance(0.5) ? "1.0" : "1.1";
                in.text = writeCellml1x(ir, version, rng);
                in.label = "generated-valid-" + version;
            } else {
                in.text = writeCellml2(ir, rng);
                in.label = "generated-valid";
            }
        } else if (i == 2) {
            GenOptions go;
            auto ir = generateModel(rng, go);
            std::string d;
            in.text = mutateStructured(writeCellml2(ir, rng), rng, rng.range(1, 3), d);
            in.label = "generated-mutant[" + d + "]";
        } else if (i == 3) {
            const std::string &f = rng.pick(c);
            std::string d;
            in.text = mutateBytes(readFile(f), rng, 2, d);
            in.baseDir = f.substr(0, f.rfind('/'));
            in.label = "garbage:" + f.substr(f.rfind('/') + 1);
        } else {
            const std::string &f = rng.pick(c);
            in.text = readFile(f);
            in.baseDir = f.substr(0, f.rfind('/'));
            in.label = "corpus:" + f.substr(f.rfind('/') + 1);
        }
        pool.push_back(in);
    }
    return pool;
}

static std::string issuesText(const Logger &lg)
{
    std::string s;
    for (const auto &l : issueList(lg)) {
        s += l + "\n";
    }
    return s;
}

static std::string rawMath(const ModelPtr &m)
{
    std::string s;
    for (const auto &c : allComponents(m)) {
        s += "[" + c->math() + "]";
        for (size_t i = 0; i < c->resetCount(); ++i) {
            s += "{" + c->reset(i)->testValue() + "|" + c->reset(i)->resetValue() + "}";
        }
    }
    return s;
}

// Services used by an operation; null members => create fresh ones.
struct Services
{
    ParserPtr strictParser;
    ParserPtr permissiveParser;
    ValidatorPtr validator;
    PrinterPtr printer;
    AnalyserPtr analyser;
    GeneratorPtr generator;
    ImporterPtr importer;
    AnnotatorPtr annotator;
};

// (the Annotator is not among the operations the property names: its id counter is instance state; see C13)
static const char *kOps = "PQVRAGI";

// Result = canonical part + "\x01" + whitespace-sensitive part
static std::string runOp(char op, const Input &in, Services &sv, bool reuse, std::vector<std::string> &mutations)
{
    auto parser = (reuse && sv.strictParser) ? sv.strictParser : Parser::create(true);
    if (reuse) {
        sv.strictParser = parser;
    }
    std::string canon;
    std::string raw;
    if (op == 'Q') {
        auto pp = (reuse && sv.permissiveParser) ? sv.permissiveParser : Parser::create(false);
        if (reuse) {
            sv.permissiveParser = pp;
        }
        auto m = pp->parseModel(in.text);
        monitorLogger(*pp, "Parser::parseModel(permissive)");
        canon = "Q:" + dumpModel(m) + "\nissues:\n" + issuesText(*pp);
        raw = m != nullptr ? rawMath(m) : "";
        return canon + "\x01" + raw;
    }
    auto m = parser->parseModel(in.text);
    monitorLogger(*parser, "Parser::parseModel");
    if (op == 'P') {
        canon = "P:" + dumpModel(m) + "\nissues:\n" + issuesText(*parser);
        raw = m != nullptr ? rawMath(m) : "";
        return canon + "\x01" + raw;
    }
    if (m == nullptr) {
        return std::string(1, op) + ":<no model>\x01";
    }
    std::string before = dumpModel(m);
    std::string beforeRaw = rawMath(m);
    auto unchanged = [&](const char *service) {
        if (dumpModel(m) != before || rawMath(m) != beforeRaw) {
            mutations.push_back(std::string(service) + ": " + firstDiff(before, dumpModel(m)));
        }
    };
    switch (op) {
    case 'V': {
        auto v = (reuse && sv.validator) ? sv.validator : Validator::create();
        if (reuse) {
            sv.validator = v;
        }
        v->validateModel(m);
        monitorLogger(*v, "Validator::validateModel");
        unchanged("Validator");
        canon = "V:" + issuesText(*v);
        break;
    }
    case 'R': {
        auto p = (reuse && sv.printer) ? sv.printer : Printer::create();
        if (reuse) {
            sv.printer = p;
        }
        std::string text = p->printModel(m);
        monitorLogger(*p, "Printer::printModel");
        unchanged("Printer");
        canon = "R:" + canonXml(text) + "\nissues:\n" + issuesText(*p);
        raw = text;
        break;
    }
    case 'A':
    case 'G': {
        auto a = (reuse && sv.analyser) ? sv.analyser : Analyser::create();
        if (reuse) {
            sv.analyser = a;
        }
        a->analyseModel(m);
        monitorLogger(*a, "Analyser::analyseModel");
        unchanged("Analyser");
        auto am = a->model();
        canon = std::string(1, op) + ":type=" + (am != nullptr ? AnalyserModel::typeAsString(am->type()) : "null") + "\nissues:\n" + issuesText(*a);
        if (am != nullptr && am->isValid()) {
            for (const auto &v : am->variables()) {
                canon += "var " + variablePath(v->variable()) + " " + AnalyserVariable::typeAsString(v->type()) + " " + std::to_string(v->index()) + "\n";
            }
            for (const auto &v : am->states()) {
                canon += "state " + variablePath(v->variable()) + " " + std::to_string(v->index()) + "\n";
            }
        }
        if (op == 'G') {
            auto g = (reuse && sv.generator) ? sv.generator : Generator::create();
            if (reuse) {
                sv.generator = g;
            }
            g->setProfile(GeneratorProfile::create(GeneratorProfile::Profile::C));
            g->setModel(am);
            canon += "C-interface:\n" + g->interfaceCode() + "C-implementation:\n" + g->implementationCode();
            g->setProfile(GeneratorProfile::create(GeneratorProfile::Profile::PYTHON));
            canon += "PY:\n" + g->implementationCode();
            unchanged("Generator");
        }
        break;
    }
    case 'I': {
        auto imp = (reuse && sv.importer) ? sv.importer : Importer::create(true);
        if (reuse) {
            sv.importer = imp;
            // the documented state of an importer includes its library: start each use from an empty library
            imp->removeAllModels();
        }
        bool ok = imp->resolveImports(m, in.baseDir.empty() ? "/nonexistent/" : in.baseDir + "/");
        monitorLogger(*imp, "Importer::resolveImports");
        canon = std::string("I:resolve=") + (ok ? "1" : "0") + "\nissues:\n" + issuesText(*imp);
        // (deep: the models behind the import sources, i.e. the importer's library, are part of what must not change)
        DumpOptions deep;
        deep.importedModels = true;
        std::string afterResolve = dumpModel(m, deep);
        std::string afterResolveRaw = rawMath(m);
        auto flat = imp->flattenModel(m);
        monitorLogger(*imp, "Importer::flattenModel");
        if (dumpModel(m, deep) != afterResolve || rawMath(m) != afterResolveRaw) {
            mutations.push_back("Importer::flattenModel: " + firstDiff(afterResolve, dumpModel(m, deep)));
        }
        canon += std::string("flatten=") + (flat != nullptr ? "model" : "null") + "\nissues:\n" + issuesText(*imp) + dumpModel(flat);
        raw = flat != nullptr ? rawMath(flat) : "";
        break;
    }
    case 'N': {
        auto an = (reuse && sv.annotator) ? sv.annotator : Annotator::create();
        if (reuse) {
            sv.annotator = an;
        }
        auto cl = m->clone();
        an->setModel(cl);
        bool r = an->assignAllIds();
        monitorLogger(*an, "Annotator::assignAllIds");
        unchanged("Annotator(clone)");
        canon = std::string("N:") + (r ? "1" : "0") + "\n";
        for (const auto &id : an->ids()) {
            canon += id + " ";
        }
        canon += "\n" + dumpModel(cl);
        break;
    }
    default:
        break;
    }
    return canon + "\x01" + raw;
}

// fresh-process side
extern "C" void vh_aux(Ctx &ctx, const char *arg)
{
    // arg = "<case>:<poolIndex>:<op>:<outfile>"
    std::string a = arg;
    size_t p1 = a.find(':');
    size_t p2 = a.find(':', p1 + 1);
    size_t p3 = a.find(':', p2 + 1);
    int64_t index = strtoll(a.substr(0, p1).c_str(), nullptr, 10);
    int pi = atoi(a.substr(p1 + 1, p2 - p1 - 1).c_str());
    char op = a[p2 + 1];
    std::string out = a.substr(p3 + 1);
    auto pool = makePool(ctx.seed, index);
    Services sv;
    std::vector<std::string> mut;
    std::string r = runOp(op, pool[static_cast<size_t>(pi)], sv, false, mut);
    writeFile(out, r);
}

static std::string selfExe()
{
    char buf[4096];
    ssize_t n = readlink("/proc/self/exe", buf, sizeof buf - 1);
    if (n <= 0) {
        return "";
    }
    buf[n] = 0;
    return buf;
}

static XmlGlobals gStartGlobals;
static bool gHaveStart = false;

void vh_run_case(Ctx &ctx)
{
    if (!gHaveStart) {
        // first case of this process: nothing of libCellML has run yet
        gStartGlobals = readXmlGlobals();
        gHaveStart = true;
    }
    Rng &rng = ctx.rng;
    auto pool = makePool(ctx.seed, ctx.index);
    std::string exe = selfExe();
    std::string dir = scratchDir();
    std::map<std::string, std::string> ref; // "pi:op" -> result
    Services sv;
    int len = rng.range(6, ctx.thorough() ? 30 : 18);
    std::string hist;
    int compared = 0;
    std::set<std::string> reportedHere;
    for (int step = 0; step < len; ++step) {
        int pi = static_cast<int>(rng.below(pool.size()));
        char op = kOps[rng.below(7)];
        bool reuse = rng.chance(0.6);
        std::string key = std::to_string(pi) + ":" + op;
        hist += " " + key + (reuse ? "r" : "f");
        if (ref.find(key) == ref.end()) {
            std::string out = dir + "/ref_" + std::to_string(ctx.index) + "_" + std::to_string(pi) + "_" + op;
            std::string cmd = "'" + exe + "' --seed " + std::to_string(ctx.seed) + " --tier " + ctx.tier + " --aux '" + std::to_string(ctx.index) + ":" + std::to_string(pi) + ":" + op + ":" + out + "' >/dev/null 2>&1";
            int rc = system(cmd.c_str());
            bool ok = false;
            std::string r = readFile(out, &ok);
            unlink(out.c_str());
            if (rc != 0 || !ok) {
                // the operation crashes even in a fresh process: C01's business, nothing to compare
                ref[key] = "\x02";
                stat("reference_crashed");
            } else {
                ref[key] = r;
            }
            stat("fresh_process_references");
        }
        if (ref[key] == "\x02") {
            continue;
        }
        stage(std::string("op ") + op + " on " + pool[static_cast<size_t>(pi)].label);
        std::vector<std::string> mutations;
        std::string got = runOp(op, pool[static_cast<size_t>(pi)], sv, reuse, mutations);
        ++compared;
        const std::string &want = ref[key];
        std::string replay = "history:" + hist + "\ninput " + std::to_string(pi) + " (" + pool[static_cast<size_t>(pi)].label + "):\n" + pool[static_cast<size_t>(pi)].text;
        for (const auto &mu : mutations) {
            std::string k = "mutated-input:" + mu.substr(0, mu.find(':'));
            if (reportedHere.insert(k).second) {
                viol("C12", k, mu, replay);
            }
        }
        if (got != want) {
            std::string gc = got.substr(0, got.find('\x01'));
            std::string wc = want.substr(0, want.find('\x01'));
            std::string k;
            std::string detail;
            // libxml2's DTD error messages list the children an element has ("got (eq CDATA ci )"): blank text nodes
            // show up there as CDATA, and whether they exist depends on the keep-blanks default - the same cause as
            // the whitespace differences of the raw text
            auto withoutBlankNodes = [](std::string t) {
                for (size_t p = t.find("CDATA"); p != std::string::npos; p = t.find("CDATA", p)) {
                    t.erase(p, 5);
                }
                t.erase(std::remove(t.begin(), t.end(), ' '), t.end()); // the list is "name name name )": spacing moves with it
                return t;
            };
            if (gc == wc) {
                k = std::string("impure:") + op + ":whitespace-only";
                detail = "canonical results agree; the raw text (math strings / printed document) differs from the fresh-process result only in whitespace";
            } else if (withoutBlankNodes(gc) == withoutBlankNodes(wc)) {
                k = std::string("impure:") + op + ":whitespace-only";
                detail = "results agree but for the blank text nodes (CDATA) that libxml2 lists in a DTD error message: " + firstDiff(wc, gc);
            } else {
                std::string fd = firstDiff(wc, gc);
                std::string cls = "content";
                if (fd.find("issues") != std::string::npos || fd.find("ERROR|") != std::string::npos || fd.find("WARNING|") != std::string::npos || fd.find("MESSAGE|") != std::string::npos) {
                    cls = "issues";
                }
                k = std::string("impure:") + op + ":" + cls + (reuse ? ":reused-instance" : ":fresh-instance");
                detail = "A=fresh process B=this history: " + fd;
            }
            if (reportedHere.insert(k).second) {
                viol("C12", k, detail, replay);
            }
        }
        // process-wide libxml2 defaults at a quiescent point
        XmlGlobals g = readXmlGlobals();
        if (!(g == gStartGlobals)) {
            std::string which;
            if (g.keepBlanks != gStartGlobals.keepBlanks) {
                which += "keepBlanks";
            }
            if (g.structuredErrorFunc != gStartGlobals.structuredErrorFunc || g.genericErrorFunc != gStartGlobals.genericErrorFunc) {
                which += "+errorHandler";
            }
            if (which.empty()) {
                which = "other";
            }
            std::string k = "impure:xml-global:" + which;
            if (reportedHere.insert(k).second) {
                viol("C12", k, "libxml2 defaults at process start: " + gStartGlobals.str() + "\nnow: " + g.str(), replay);
            }
        }
    }
    stat("operations_compared", compared);
    caseInfo(hex64(fnv1a(hist)) + std::to_string(ctx.index), compared >= 4, "history" + hist);
}
