"""Registry of checks: one JSON file per property under /verif/checks (property id -> driver parts, level, evidence rule, floors)."""
import json
import os

_DIR = os.path.join(os.path.dirname(os.path.dirname(os.path.abspath(__file__))), "checks")

COMMON_ASSUME = [
    "gcc 12 ASan+UBSan build (-O1) of /repo's working tree with -DHSORBY_LIBCELLML_VERIF; system libxml2 2.9.14",
    "leak detection off; allocation failure not injected",
]

CHECKS = {}
for _f in sorted(os.listdir(_DIR)):
    if _f.endswith(".json"):
        with open(os.path.join(_DIR, _f)) as _fh:
            _c = json.load(_fh)
        _c["assumptions"] = COMMON_ASSUME + _c.get("assumptions", [])
        CHECKS[_f[:-5]] = _c
